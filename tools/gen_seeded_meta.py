#!/usr/bin/env python3
"""Writes seeded/<name>/meta.json from the matrix logs (tools/matrix.py output) and the needs table."""
import json, os, re, sys
sys.path.insert(0, os.path.dirname(os.path.abspath(__file__)))
from seeded_needs import NEEDS
logs = sys.argv[1:]
caught = {}
for l in logs:
    for line in open(l):
        m = re.match(r"^(\S+)/patch.diff: caught_by=(\[.*\])", line)
        if m:
            name, got = m.group(1), eval(m.group(2))
            if name[:3] in ("R5-", "R6-", "R7-") and name in caught:
                # round 5 was run check by check while the checks were being extended: results accumulate
                caught[name] = sorted(set(caught[name]) | set(got))
            else:
                caught[name] = got
for name, (prop, needs) in NEEDS.items():
    d = f"/verif/seeded/{name}"
    if not os.path.isdir(d): continue
    c = caught.get(name)
    primary = []
    if c:
        primary = [prop] if prop in c else c[:1]
    meta = {
        "breaks_property": prop,
        "origin": "revert of a fix: commit in /repo" if name.startswith("F") else ("written by the harness author from the list in DESIGN.md 3.8 (no demonstration test; the check output is the demonstration)" if name.startswith("M") else "written by an independent sub-agent that saw only the property text and a scratch worktree"),
        "needs_to_manifest": needs,
        "confirmed": "with the change applied the 73 existing tests pass; the demonstration (demo.rs, a cargo integration test) fails with the change and passes without it" if not name.startswith("F") else "the pinned tree b95655e (which contains this behaviour) passes the 73 tests; the witness is in known_findings.json",
        "ran": "cargo test --workspace --offline (73 passed) with the patch; cargo test --offline --test demo (fails with, passes without); " + ("tools/matrix.py <patch> <the property it was written for and its neighbours> (quick tier, both profiles); other checks were not run against it" if name[:3] in ("R5-", "R6-", "R7-") else "tools/matrix.py <patch> C01..C20 (quick tier)"),
        "caught_by_quick": primary,
        "also_caught_by": [x for x in (c or []) if x not in primary],
        "matrix_known": c is not None,
    }
    if prop == "none":
        meta["caught_by_quick"] = []
        meta["must_pass_quick"] = {"M11": ["C04", "C06", "C20"], "N01": ["C05", "C07", "C14"], "N02": ["C03", "C12", "C20"], "N03": ["C01", "C09", "C10", "C11"],
                                   "N04": ["C01", "C09"], "N05": ["C03", "C05"], "N06": ["C18", "C12"], "N07": ["C19"], "N08": ["C01", "C03", "C07"], "N09": ["C05", "C08", "C15"], "N10": ["C16", "C17", "C12"], "N11": ["C04", "C20", "C06"], "N12": ["C16", "C17", "C12"], "N13": ["C14", "C09", "C01"], "N14": ["C09", "C14", "C01"], "N15": ["C14", "C09", "C02"], "N16": ["C12", "C03", "C04", "C20"]}.get(name, ["C01"])
        meta["origin"] = "written by the harness author: a refactoring under which every property still holds; no check may report it"
        meta["matrix_result"] = "no check fired" if c == [] else ("not run" if c is None else f"FALSE ALARM: {c}")
    if prop == "outside":
        meta["breaks_property"] = "none of C01-C20 as stated"
        meta["caught_by_quick"] = []
        meta["must_pass_quick"] = ["C05", "C07", "C14"]
        meta["origin"] = "written by an independent sub-agent for C05/C07/C14; it changes only what a caller observes when it keeps using the caller-held decoder state AFTER the decoder has returned an error - behaviour none of the properties constrains (DESIGN 0.8); the checks must stay quiet"
        meta["matrix_result"] = "no check fired" if c == [] else ("not run" if c is None else f"fired: {c}")
    if name.startswith("R5-O"):
        meta["origin"] = "written by the harness author (value-dependent slips used to try U_field); no demonstration test, the check output is the demonstration"
        meta["confirmed"] = "with the change applied the 73 existing tests pass (cargo test --workspace --offline)"
    if name.startswith("M") or name.startswith("N"):
        meta["confirmed"] = "with the change applied the 73 existing tests pass (cargo test --workspace --offline)"
        meta["ran"] = "cargo test --workspace --offline (73 passed) with the patch; tools/matrix.py <patch> C01..C20 (quick tier, fast profile)"
    json.dump(meta, open(f"{d}/meta.json", "w"), indent=1)
print(len(caught), "matrix rows")
