//! Checks that quantify over byte strings: C03 (totality / memory safety), C06 (front-ends agree),
//! C11 (decode is a projection), C12 (type invariants of decoded values).

use crate::checks::sweeps;
use crate::checks::values::{u_small, u_tiny, B16};
use crate::env::RA;
use crate::ev::{guard, hex, hex_short, last_panic_loc, Ctx};
use crate::fam::{Fam, V3, V5};
use crate::front::{self, Out};
use mqtt_ref::dec;
use mqtt_ref::enc::{self, Form, Spell};
use mqtt_ref::mutate;
use mqtt_ref::{gen, Ast, Family};
use rayon::prelude::*;
use serde_json::{json, Value};
use std::sync::atomic::{AtomicU64, Ordering::Relaxed};

pub fn case_bytes<F: Fam>(b: &[u8]) -> Value {
    json!({"kind": "bytes", "family": F::NAME, "bytes": hex(b)})
}

fn first_byte_class(b: &[u8]) -> String {
    match b.first() {
        Some(c) => format!("type{}", c >> 4),
        None => "empty".into(),
    }
}

fn past_header<F: Fam>(o: &Out<F>) -> bool {
    match o {
        Out::Pkt(_) => true,
        Out::Incomplete => false,
        Out::Err(e) => !matches!(F::as_common(e), Some(mqtt_proto::Error::InvalidHeader)),
        _ => true,
    }
}

pub struct Sweep<'a> {
    pub ctx: &'a Ctx,
    pub nontrivial: AtomicU64,
    pub accepted: AtomicU64,
}

/// Feed every byte universe of DESIGN.md 3.2 to `light` (cheap per-input work) and the
/// structure-aware ones additionally to `heavy` (scripted transports with logs).
pub fn all_byte_universes<F: Fam>(ctx: &Ctx, light: &(dyn Fn(&[u8]) + Sync), heavy: &(dyn Fn(&[u8]) + Sync), with_suffixes: bool) {
    all_byte_universes2::<F>(ctx, light, heavy, heavy, with_suffixes)
}

pub fn all_byte_universes2<F: Fam>(ctx: &Ctx, light: &(dyn Fn(&[u8]) + Sync), heavy: &(dyn Fn(&[u8]) + Sync), heavy_n1: &(dyn Fn(&[u8]) + Sync), with_suffixes: bool) {
    let fam = F::FAMILY;
    let (nb, full_r, b16a, b16b) = sweeps::tier_params(ctx);
    // all strings of 4 bytes only where the property is about arbitrary strings (C03)
    let nb = if ctx.prop == "C03" { nb } else { 3 };
    let t0 = std::time::Instant::now();
    let n = sweeps::u_bytes(nb, light);
    ctx.count(&format!("{}_U_bytes(<={nb})", F::NAME), n);
    ctx.count(&format!("{}_ms_U_bytes", F::NAME), t0.elapsed().as_millis() as u64);
    let t0 = std::time::Instant::now();
    let n = sweeps::u_frame(fam, full_r, b16a, b16b, light);
    ctx.count(&format!("{}_U_frame(r<={full_r};B16 r={b16a}..={b16b})", F::NAME), n);
    ctx.count(&format!("{}_ms_U_frame", F::NAME), t0.elapsed().as_millis() as u64);
    let n = sweeps::max_headers(if ctx.thorough() { 3 } else { 2 }, light);
    ctx.count(&format!("{}_max_headers", F::NAME), n);
    // single-edit neighbourhoods of every small frame
    let frames = sweeps::small_frames(fam, if ctx.thorough() { 40 } else { 24 });
    ctx.count(&format!("{}_U_small_frames", F::NAME), frames.len() as u64);
    let n1 = AtomicU64::new(0);
    let t0 = std::time::Instant::now();
    frames.par_iter().for_each(|f| {
        heavy(f);
        let k = sweeps::n1(f, &mut |b| {
            light(b);
            heavy_n1(b);
        });
        n1.fetch_add(k, Relaxed);
    });
    ctx.count(&format!("{}_N1", F::NAME), n1.load(Relaxed));
    ctx.count(&format!("{}_ms_N1", F::NAME), t0.elapsed().as_millis() as u64);
    if ctx.thorough() {
        let n2 = AtomicU64::new(0);
        frames.par_iter().filter(|f| f.len() <= 12).for_each(|f| {
            let k = sweeps::n2(f, &mut |b| light(b));
            n2.fetch_add(k, Relaxed);
        });
        ctx.count(&format!("{}_N2", F::NAME), n2.load(Relaxed));
    }
    // splices over a subset
    let step = (frames.len() / if ctx.thorough() { 80 } else { 40 }).max(1);
    let subset: Vec<Vec<u8>> = frames.iter().step_by(step).cloned().collect();
    let n = sweeps::splices(&subset, light);
    ctx.count(&format!("{}_splices", F::NAME), n);
    // legal non-canonical spellings (long forms, non-minimal integers, permuted properties)
    let sp = spellings(fam);
    ctx.count(&format!("{}_U_spell", F::NAME), sp.len() as u64);
    sp.par_iter().for_each(|b| {
        light(b);
        heavy(b);
    });
    // the malformation catalogue
    let mut stats = mutate::CatalogueStats::default();
    let mut mal: Vec<Vec<u8>> = Vec::new();
    for a in u_tiny(fam).iter().chain(u_small(fam).iter().step_by(if ctx.thorough() { 1 } else { 7 })) {
        for m in mutate::catalogue(fam, a, &mut stats, true) {
            mal.push(m.bytes);
        }
    }
    ctx.count(&format!("{}_U_mal", F::NAME), mal.len() as u64);
    mal.par_iter().for_each(|b| light(b));
    if with_suffixes {
        let n = AtomicU64::new(0);
        frames.par_iter().for_each(|f| {
            let mut buf = Vec::new();
            let mut k = 0;
            for a in 0..=255u8 {
                buf.clear();
                buf.extend_from_slice(f);
                buf.push(a);
                light(&buf);
                k += 1;
            }
            for a in B16 {
                for b in B16 {
                    buf.clear();
                    buf.extend_from_slice(f);
                    buf.push(a);
                    buf.push(b);
                    light(&buf);
                    k += 1;
                }
            }
            n.fetch_add(k, Relaxed);
        });
        ctx.count(&format!("{}_frame_plus_suffix", F::NAME), n.load(Relaxed));
    }
    // CONNECT frames of the OTHER family (reference encodings of its U_small CONNECT values) and every truncation
    // of them: the version gate sits in front of the body decoder in each front-end separately
    {
        let other = if fam == Family::V5 { Family::V3 } else { Family::V5 };
        let n = AtomicU64::new(0);
        let cs: Vec<Vec<u8>> = gen::values_of(other, mqtt_ref::ast::ptype::CONNECT, &gen::Scope::small()).iter().filter_map(|a| enc::encode_bytes(other, a)).collect();
        cs.par_iter().for_each(|b| {
            for k in 0..=b.len() {
                light(&b[..k]);
            }
            n.fetch_add(b.len() as u64 + 1, Relaxed);
        });
        ctx.count(&format!("{}_other_family_connect_prefixes", F::NAME), n.load(Relaxed));
    }
    // the reference encodings of the value universes (U_val, U_size, U_field, U_thresh; frames < 100,000 bytes):
    // well-formed inputs with every field-value catalogue entry and every relation between fields (DESIGN 0.8)
    // (C11 decodes them in its own leg; C03's quick tier leaves them to C06 / C12 / C01, which run the same decoders
    // on the same frames, to stay inside its time budget)
    if ctx.prop != "C11" && !(ctx.prop == "C03" && !ctx.thorough()) {
        let t0 = std::time::Instant::now();
        let (u, _) = crate::checks::values::universe(fam, ctx);
        let n = AtomicU64::new(0);
        crate::checks::values::for_items(&u, &|_, a| {
            if let Some(b) = enc::encode_bytes(fam, a) {
                if b.len() < 100_000 {
                    light(&b);
                    n.fetch_add(1, Relaxed);
                }
            }
        });
        ctx.count(&format!("{}_reference_encodings_of_value_universes", F::NAME), n.load(Relaxed));
        ctx.count(&format!("{}_ms_value_universes", F::NAME), t0.elapsed().as_millis() as u64);
    }
}

/// U_spell: every legal spelling the reference encoder can produce for U_small
pub fn spellings(fam: Family) -> Vec<Vec<u8>> {
    let mut out = Vec::new();
    for a in u_small(fam) {
        for form in [Form::Canon, Form::CodeOnly, Form::Full] {
            for rl_pad in 0..=3u8 {
                for plen_pad in 0..=2u8 {
                    for subid_pad in 0..=2u8 {
                        if fam == Family::V3 && (plen_pad > 0 || subid_pad > 0) {
                            continue;
                        }
                        if let Some(f) = enc::encode(fam, &a, Spell { form, rl_pad, plen_pad, subid_pad }) {
                            if let Some(b) = f.bytes() {
                                out.push(b);
                            }
                        }
                    }
                }
            }
        }
        // property permutations: rotations and reversal of the property list
        let permuted = permute_props(&a);
        for p in permuted {
            if let Some(b) = enc::encode_bytes(fam, &p) {
                out.push(b);
            }
        }
    }
    out.sort();
    out.dedup();
    out
}

fn permute_props(a: &Ast) -> Vec<Ast> {
    let mut out = Vec::new();
    let props = match a {
        Ast::Connect { props, .. }
        | Ast::Connack { props, .. }
        | Ast::Publish { props, .. }
        | Ast::Ack { props, .. }
        | Ast::Subscribe { props, .. }
        | Ast::Suback { props, .. }
        | Ast::Unsubscribe { props, .. }
        | Ast::Unsuback { props, .. }
        | Ast::Disconnect { props, .. }
        | Ast::Auth { props, .. } => props.clone(),
        _ => return out,
    };
    if props.len() < 2 {
        return out;
    }
    let mut variants: Vec<mqtt_ref::Props> = Vec::new();
    for r in 1..props.len() {
        let mut p = props.clone();
        p.rotate_left(r);
        variants.push(p);
    }
    let mut rev = props.clone();
    rev.reverse();
    variants.push(rev);
    for v in variants {
        let mut b = a.clone();
        match &mut b {
            Ast::Connect { props, .. }
            | Ast::Connack { props, .. }
            | Ast::Publish { props, .. }
            | Ast::Ack { props, .. }
            | Ast::Subscribe { props, .. }
            | Ast::Suback { props, .. }
            | Ast::Unsubscribe { props, .. }
            | Ast::Unsuback { props, .. }
            | Ast::Disconnect { props, .. }
            | Ast::Auth { props, .. } => *props = v,
            _ => {}
        }
        out.push(b);
    }
    out
}

// ---------------------------------------------------------------------------------------------
// C03

fn c03_report<F: Fam>(ctx: &Ctx, b: &[u8], entry: &str, what: String) {
    ctx.violation(format!("C03:{}:{entry}:{}", F::NAME, first_byte_class(b)), format!("{entry} on {}: {what}", hex_short(b)), json!({"kind":"bytes","family":F::NAME,"bytes":hex(b),"entry":entry}));
}

/// Error values are data handed to the caller too: every text they carry must be well-formed UTF-8
/// (a `String` that is not is undefined behaviour waiting for its first use) and they must format
/// without panicking.
pub fn err_walk<F: Fam>(e: &F::Error) -> Result<(), String> {
    use mqtt_proto::Error as E;
    if let Some(c) = F::as_common(e) {
        let texts: Vec<(&str, &String)> = match c {
            E::InvalidProtocol(s, _) => vec![("InvalidProtocol", s)],
            E::InvalidTopicName(s) => vec![("InvalidTopicName", s)],
            E::InvalidTopicFilter(s) => vec![("InvalidTopicFilter", s)],
            E::IoError(_, s) => vec![("IoError", s)],
            _ => vec![],
        };
        for (name, s) in texts {
            if std::str::from_utf8(s.as_bytes()).is_err() {
                return Err(format!("error value {name} carries a String that is not UTF-8: {}", hex_short(s.as_bytes())));
            }
        }
    }
    match guard(|| format!("{e:?}").len()) {
        Ok(_) => Ok(()),
        Err(m) => Err(format!("formatting the error value panics: {m}")),
    }
}

pub fn c03_light<F: Fam>(ctx: &Ctx, sw: &Sweep, b: &[u8]) {
    let o1 = front::blocking::<F>(b);
    let (o2, used2) = front::async_whole::<F>(b);
    let (o3, tb, used3) = front::poll_slice::<F>(b);
    // the header entry points depend on the first <= 5 bytes only; all strings <= 3 bytes and the
    // maximal headers cover them, longer inputs would only repeat the same calls
    let (h1, h2) = if b.len() <= 6 {
        (
            guard(|| F::header_decode(b).map(|_| ())),
            guard(|| {
                let mut rd: &[u8] = b;
                crate::env::run_ready(F::header_decode_async(&mut rd)).map(|r| r.map(|_| ()))
            }),
        )
    } else {
        (Ok(Ok(())), Ok(Some(Ok(()))))
    };
    let calls = if b.len() <= 6 { 5 } else { 3 };
    ctx.eval(calls);
    ctx.trans(calls);
    ctx.trace(calls);
    for (entry, o) in [("Packet::decode", &o1), ("Packet::decode_async", &o2), ("PollPacket", &o3)] {
        match o {
            Out::Panic(m) => c03_report::<F>(ctx, b, entry, format!("panic: {m}")),
            Out::Stuck => c03_report::<F>(ctx, b, entry, "does not terminate: stays pending or keeps reading after the end of an always-ready input".into()),
            Out::Pkt(p) => match guard(|| F::walk(p)) {
                Ok(Ok(())) => {}
                Ok(Err(w)) => c03_report::<F>(ctx, b, entry, format!("returned a packet violating a type invariant: {w}")),
                Err(m) => c03_report::<F>(ctx, b, entry, format!("an accessor of the returned packet panics: {m} @ {}", last_panic_loc())),
            },
            Out::Err(e) => {
                if let Err(w) = err_walk::<F>(e) {
                    c03_report::<F>(ctx, b, entry, w);
                }
            }
            _ => {}
        }
    }
    if let Err(m) = &h1 {
        c03_report::<F>(ctx, b, "Header::decode", format!("panic: {m} @ {}", last_panic_loc()));
    }
    match &h2 {
        Err(m) => c03_report::<F>(ctx, b, "Header::decode_async", format!("panic: {m} @ {}", last_panic_loc())),
        Ok(None) => c03_report::<F>(ctx, b, "Header::decode_async", "pending on an always-ready transport".into()),
        _ => {}
    }
    if used2 > b.len() || used3 > b.len() {
        c03_report::<F>(ctx, b, "cursor", "consumed more bytes than exist".into());
    }
    if let (Out::Pkt(_), Some((t, bl))) = (&o3, tb) {
        if t != used3 || bl > b.len() {
            c03_report::<F>(ctx, b, "PollPacket", format!("reports total {t}, body {bl} bytes, consumed {used3}"));
        }
    }
    if past_header::<F>(&o3) {
        sw.nontrivial.fetch_add(1, Relaxed);
    }
    if o3.is_pkt() {
        sw.accepted.fetch_add(1, Relaxed);
    }
}

/// scripted transports: one byte per read (every read boundary), logs for the buffer monitors
pub fn c03_heavy<F: Fam>(ctx: &Ctx, b: &[u8]) {
    c03_heavy_opt::<F>(ctx, b, true)
}

/// `full` = every delivery x future handling and the end-of-stream cuts (original frames);
/// otherwise byte-wise delivery with the future kept and re-created plus two-byte delivery re-created
pub fn c03_heavy_opt<F: Fam>(ctx: &Ctx, b: &[u8], full: bool) {
    let frame_end = match dec::header(b) {
        Ok((_, rem, hl, _)) => (hl + rem as usize).min(b.len()),
        Err(_) => b.len(),
    };
    for (name, after) in [("bytewise", RA::Deliver(1)), ("two-bytes", RA::Deliver(2))] {
        for recreate in [false, true] {
            if !full && name == "two-bytes" && !recreate {
                continue;
            }
            let p = front::poll_scripted::<F>(b, vec![], after, recreate, usize::MAX);
            ctx.eval(1);
            ctx.trans(p.polls as u64);
            ctx.trace(1);
            let o = p.out();
            if let Out::Panic(m) = &o {
                c03_report::<F>(ctx, b, &format!("PollPacket/{name}"), format!("panic: {m}"));
            }
            if o == Out::Stuck {
                c03_report::<F>(ctx, b, &format!("PollPacket/{name}"), "does not terminate (pending without the transport being pending)".into());
            }
            if p.uninit_exposed {
                c03_report::<F>(ctx, b, &format!("PollPacket/{name}"), "returned a body buffer containing bytes that no read ever wrote (uninitialised memory exposed)".into());
            }
            if let Some(body) = p.body() {
                if let Ok((_, _, hl, _)) = dec::header(b) {
                    if !p.uninit_exposed && b.len() >= hl + body.len() && body != &b[hl..hl + body.len()] {
                        c03_report::<F>(ctx, b, &format!("PollPacket/{name}"), format!("returned body {} differs from the bytes delivered", hex_short(body)));
                    }
                }
            }
            if p.consumed > frame_end && o.is_pkt() {
                c03_report::<F>(ctx, b, &format!("PollPacket/{name}"), format!("consumed {} bytes, the frame has {frame_end}", p.consumed));
            }
        }
        if !full && name == "two-bytes" {
            continue;
        }
        let a = front::async_scripted::<F>(b, vec![], after);
        ctx.eval(1);
        ctx.trans(1);
        ctx.trace(1);
        match a.out() {
            Out::Panic(m) => c03_report::<F>(ctx, b, &format!("decode_async/{name}"), format!("panic: {m}")),
            Out::Stuck => c03_report::<F>(ctx, b, &format!("decode_async/{name}"), "does not terminate".into()),
            Out::Pkt(p) => {
                if let Ok(Err(w)) = guard(|| F::walk(&p)) {
                    c03_report::<F>(ctx, b, &format!("decode_async/{name}"), format!("type invariant: {w}"));
                }
            }
            _ => {}
        }
    }
    if !full {
        return;
    }
    // zero-length read in the middle (peer closed): must end, not spin
    for cut in [1usize, 2, b.len() / 2, b.len().saturating_sub(1)] {
        if cut < b.len() {
            let p = front::poll_scripted::<F>(&b[..cut], vec![], RA::Deliver(usize::MAX), true, usize::MAX);
            ctx.eval(1);
            ctx.trace(1);
            match p.out() {
                Out::Panic(m) => c03_report::<F>(ctx, b, "PollPacket/eof", format!("panic at cut {cut}: {m}")),
                Out::Stuck => c03_report::<F>(ctx, b, "PollPacket/eof", format!("spins on end of stream at {cut}")),
                _ => {}
            }
        }
    }
}

/// the public per-body and per-property-set decoders called directly
pub fn c03_sub<F: Fam>(ctx: &Ctx, b: &[u8], hd: u8) {
    for rem in [0u32, 1, 2, b.len() as u32, b.len() as u32 + 1, 0x0FFF_FFFF] {
        ctx.eval(1);
        match guard(|| F::sub_decoders(b, hd, rem)) {
            Err(m) => {
                ctx.violation(
                    format!("C03:{}:sub-decoder-panic", F::NAME),
                    format!("a per-body / per-property decoder called directly on {} (control {:#04x}, remaining length {rem}) panics: {m} @ {}", hex_short(b), hd, last_panic_loc()),
                    json!({"kind":"sub-decoder","family":F::NAME,"bytes":hex(b),"hd":hd,"rem":rem}),
                );
                return;
            }
            Ok(results) => {
                ctx.trans(results.len() as u64);
                ctx.trace(results.len() as u64);
                for (name, p) in results {
                    if let Some(p) = p {
                        if let Ok(Err(w)) = guard(|| F::walk(&p)) {
                            ctx.violation(
                                format!("C03:{}:sub-decoder-invariant:{name}", F::NAME),
                                format!("{name} on {} returned a value violating a type invariant: {w}", hex_short(b)),
                                json!({"kind":"sub-decoder","family":F::NAME,"bytes":hex(b),"hd":hd,"rem":rem}),
                            );
                        }
                    }
                }
            }
        }
    }
}

fn c03_sub_universe<F: Fam>(ctx: &Ctx) {
    // all strings <= 2 bytes, all 3-byte strings over B16
    let mut n = 0u64;
    c03_sub::<F>(ctx, &[], 0x32);
    (0..=255u8).into_par_iter().for_each(|a| {
        c03_sub::<F>(ctx, &[a], 0x32);
        for b in 0..=255u8 {
            c03_sub::<F>(ctx, &[a, b], 0x32);
        }
    });
    n += 1 + 256 + 65536;
    B16.par_iter().for_each(|a| {
        for b in B16 {
            for c in B16 {
                c03_sub::<F>(ctx, &[*a, b, c], 0x30);
            }
        }
    });
    n += 4096;
    // the bodies of all small frames, whole and with every byte substituted over B16
    let frames = sweeps::small_frames(F::FAMILY, if ctx.thorough() { 40 } else { 24 });
    let m = AtomicU64::new(0);
    frames.par_iter().for_each(|f| {
        let hl = dec::header(f).map(|h| h.2).unwrap_or(2);
        let body = &f[hl..];
        c03_sub::<F>(ctx, body, f[0]);
        let mut k = 1;
        let mut buf = body.to_vec();
        for i in 0..body.len() {
            for v in B16 {
                if v != body[i] {
                    buf[i] = v;
                    c03_sub::<F>(ctx, &buf, f[0]);
                    k += 1;
                }
            }
            buf[i] = body[i];
            // and truncated there
            c03_sub::<F>(ctx, &body[..i], f[0]);
            k += 1;
        }
        m.fetch_add(k, Relaxed);
    });
    ctx.count(&format!("{}_sub_decoder_inputs", F::NAME), n + m.load(Relaxed));
}

pub fn c03(ctx: &Ctx) {
    ctx.set_rule("all byte strings <= 3 (thorough 4) bytes; all complete frames with remaining length <= 2 (3) and all bodies over the 16-byte alphabet B16 up to 5 (6) bytes for the legal control bytes; maximal headers; the complete single-edit neighbourhood N1 (substitution, deletion, insertion, every 16-bit window rewritten as a length, remaining length rewritten to 0..rem+2 and the width boundaries; raw and re-framed) of every U_small frame; splices; legal non-canonical spellings; the malformation catalogue; the reference encodings of the value universes (U_val, U_size, U_field, U_thresh; thorough tier - in the quick tier C06 and C12 run the same decoders over them); every prefix of every CONNECT of the OTHER protocol family (U_small); the targeted text universe (every text-bearing field of every packet type, and every pair of them, filled with - thorough tier: all byte strings <= 3 over a 16-byte alphabet, defective strings of 4..129 bytes; both tiers: - strings of 250..1027 bytes made of 1-, 2-, 3- and 4-byte characters at every alignment, clean and with a wildcard / NUL / invalid byte in front or at the end). Entry points: Packet::decode, Header::decode, decode_async, Header::decode_async, PollPacket (always-ready; 1- and 2-byte reads with the future kept / re-created; end of stream mid-way); additionally every public per-body and per-property-set decoder (Connect::decode_async … AuthProperties::decode_async, decode_with_protocol with all three protocols, LastWill, Protocol, decode_raw_header) called directly on all strings <= 2 bytes, B16^3 and the bodies of all small frames with every byte substituted over B16 and every truncation, for six remaining-length arguments. Monitors: panic (incl. overflow checks and debug_assert in the checked profile), pending-without-cause, call budget, init coverage of the returned body buffer by address ranges, type-invariant walker on returned packets, and on returned ERROR values: every text they carry is well-formed UTF-8 and they format without panicking. Non-trivial = inputs that get past header validation");
    fn fam<F: Fam>(ctx: &Ctx) {
        let sw = Sweep { ctx, nontrivial: AtomicU64::new(0), accepted: AtomicU64::new(0) };
        all_byte_universes2::<F>(ctx, &|b| c03_light::<F>(ctx, &sw, b), &|b| c03_heavy::<F>(ctx, b), &|b| c03_heavy_opt::<F>(ctx, b, ctx.thorough()), true);
        c03_sub_universe::<F>(ctx);
        // the targeted text universe (shared with C12): every text-bearing field of every packet type filled with
        // arbitrary short byte strings, defective long strings and long multi-byte strings at every alignment
        let tf = targeted_text_frames::<F>(ctx, !ctx.thorough());
        tf.par_iter().for_each(|b| c03_light::<F>(ctx, &sw, b));
        crate::checks::history::decode_history::<F>(ctx, "C03");
        ctx.nontriv(sw.nontrivial.load(Relaxed));
        ctx.count(&format!("{}_accepted", F::NAME), sw.accepted.load(Relaxed));
        ctx.state(sw.nontrivial.load(Relaxed));
    }
    fam::<V3>(ctx);
    fam::<V5>(ctx);
    ctx.sample(json!({"input": "32 03 00 01 61 00 07", "kind": "remaining length rewritten below the fields present"}));
    ctx.sample(json!({"input": "ff ff ff ff 7f 00", "kind": "maximal header"}));
    ctx.sample(json!({"input": "30 06 00 01 61 78 79 7a", "kind": "valid frame delivered one byte per read with the future re-created at every Pending"}));
    ctx.assume("memory-safety verdicts come from the address-range monitor and the walker inside the enumeration (and the Miri leg of the thorough tier on a reduced scope), not from a proof");
}

// ---------------------------------------------------------------------------------------------
// C06

pub fn c06_input<F: Fam>(ctx: &Ctx, sw: &Sweep, b: &[u8]) {
    let ob = front::blocking::<F>(b);
    let (oa, _) = front::async_whole::<F>(b);
    ctx.eval(2);
    ctx.trans(3);
    ctx.trace(1);
    // (c) blocking = async with EOF mapped to incomplete, for packets ...
    if ob != oa {
        ctx.violation(
            format!("C06:{}:blocking-vs-async:{}", F::NAME, first_byte_class(b)),
            format!("on {}: blocking {} but async {}", hex_short(b), ob.short(), oa.short()),
            case_bytes::<F>(b),
        );
    }
    // ... and for bare headers
    let hb = guard(|| F::header_decode(b));
    let ha = guard(|| {
        let mut rd: &[u8] = b;
        crate::env::run_ready(F::header_decode_async(&mut rd))
    });
    match (&hb, &ha) {
        (Ok(x), Ok(Some(y))) if x == y => {}
        _ => ctx.violation(
            format!("C06:{}:header-blocking-vs-async", F::NAME),
            format!("on {}: Header::decode {:?} but Header::decode_async {:?}", hex_short(b), hb, ha),
            case_bytes::<F>(b),
        ),
    }
    // (a)/(b) only for inputs that start with a complete frame
    let complete = match dec::header(b) {
        Ok((_, rem, hl, _)) => b.len() >= hl + rem as usize,
        Err(_) => false,
    };
    if !complete {
        return;
    }
    let (op, _, _) = front::poll_slice::<F>(b);
    if past_header::<F>(&op) {
        sw.nontrivial.fetch_add(1, Relaxed);
    }
    match &op {
        Out::Pkt(_) => {
            sw.accepted.fetch_add(1, Relaxed);
            if ob != op || oa != op {
                ctx.violation(
                    format!("C06:{}:poll-accepts:{}", F::NAME, first_byte_class(b)),
                    format!("on {}: poll decoder accepts {} but blocking {} / async {}", hex_short(b), op.short(), ob.short(), oa.short()),
                    case_bytes::<F>(b),
                );
            }
        }
        Out::Err(e) => {
            if F::as_common(e) != Some(&mqtt_proto::Error::InvalidRemainingLength) && (ob != op || oa != op) {
                ctx.violation(
                    format!("C06:{}:poll-rejects:{}", F::NAME, first_byte_class(b)),
                    format!("on {}: poll decoder rejects with {:?} but blocking {} / async {}", hex_short(b), e, ob.short(), oa.short()),
                    case_bytes::<F>(b),
                );
            }
        }
        Out::Incomplete => {
            ctx.violation(format!("C06:{}:poll-incomplete-on-complete-frame", F::NAME), format!("on the complete frame {} the poll decoder reports end of input", hex_short(b)), case_bytes::<F>(b));
        }
        _ => {} // panics are C03's business
    }
}

pub fn c06(ctx: &Ctx) {
    ctx.set_rule("the byte universes of C03 (including the reference encodings of the value universes U_val, U_size, U_field, U_thresh, and every prefix of every CONNECT of the other protocol family) plus frame ++ suffix (all 256 one-byte and B16^2 suffixes) and all 2^16 (control byte, length byte) bare headers: (a) poll accepts => blocking and async return the same packet; (b) poll rejects with an error other than InvalidRemainingLength => the same error from both; (c) for every input blocking = async with end-of-input mapped to incomplete, for Packet and for Header. (a)/(b) apply to inputs that start with a complete frame (decided by the reference header reader). Non-trivial = complete frames that get past header validation");
    fn fam<F: Fam>(ctx: &Ctx) {
        let sw = Sweep { ctx, nontrivial: AtomicU64::new(0), accepted: AtomicU64::new(0) };
        all_byte_universes::<F>(ctx, &|b| c06_input::<F>(ctx, &sw, b), &|_| {}, true);
        // bare headers with every continuation spelling
        for p in crate::checks::nums::c15_patterns() {
            for c in [0x10u8, 0x30, 0x3F, 0x62, 0xC0, 0xE0, 0xF0, 0x00] {
                let mut b = vec![c];
                b.extend_from_slice(&p);
                c06_input::<F>(ctx, &sw, &b);
            }
        }
        ctx.nontriv(sw.nontrivial.load(Relaxed));
        ctx.state(sw.nontrivial.load(Relaxed));
        ctx.count(&format!("{}_accepted_by_poll", F::NAME), sw.accepted.load(Relaxed));
    }
    fam::<V3>(ctx);
    fam::<V5>(ctx);
    ctx.sample(json!({"input": "40 02 00 00", "expect": "ZeroPid from all three"}));
    ctx.sample(json!({"input": "32 0a 00 01 61 00 00", "expect": "truncated frame: (c) only - blocking must equal async"}));
    ctx.sample(json!({"input": "10 80 80 80 80", "expect": "InvalidVarByteInt from Header::decode and Header::decode_async"}));
}

// ---------------------------------------------------------------------------------------------
// C11

fn c11_accept<F: Fam>(ctx: &Ctx, b: &[u8], front_name: &str, p: &F::Packet, consumed: usize) {
    ctx.trace(1);
    let enc = guard(|| F::encode(p));
    let bytes = match enc {
        Ok(Ok(vb)) => vb.as_ref().to_vec(),
        Ok(Err(e)) => {
            ctx.violation(
                format!("C11:{}:reencode-error:type{}", F::NAME, F::type_nibble(p)),
                format!("{front_name} decoder accepts {} as {} but re-encoding fails: {e:?}", hex_short(b), Out::<F>::Pkt(p.clone()).short()),
                case_bytes::<F>(b),
            );
            return;
        }
        Err(m) => {
            ctx.violation(
                format!("C11:{}:reencode-panic:type{}", F::NAME, F::type_nibble(p)),
                format!("{front_name} decoder accepts {} as {} but re-encoding panics: {m} @ {}", hex_short(b), Out::<F>::Pkt(p.clone()).short(), last_panic_loc()),
                case_bytes::<F>(b),
            );
            return;
        }
    };
    if bytes.len() > consumed {
        ctx.violation(
            format!("C11:{}:reencode-longer:type{}", F::NAME, F::type_nibble(p)),
            format!("{front_name} decoder consumed {consumed} bytes of {} but the re-encoding {} has {} bytes", hex_short(b), hex_short(&bytes), bytes.len()),
            case_bytes::<F>(b),
        );
    }
    let want: Out<F> = Out::Pkt(p.clone());
    let r1 = front::blocking::<F>(&bytes);
    let (r2, _) = front::async_whole::<F>(&bytes);
    let (r3, tb, used) = front::poll_slice::<F>(&bytes);
    ctx.trans(4);
    if r1 != want || r2 != want || r3 != want || tb.map(|x| x.0) != Some(bytes.len()) || used != bytes.len() {
        ctx.violation(
            format!("C11:{}:not-a-fixpoint:type{}", F::NAME, F::type_nibble(p)),
            format!(
                "{front_name} decoder accepts {} as {}; its re-encoding {} decodes to blocking {} / async {} / poll {} (total {:?})",
                hex_short(b),
                want.short(),
                hex_short(&bytes),
                r1.short(),
                r2.short(),
                r3.short(),
                tb
            ),
            case_bytes::<F>(b),
        );
    }
}

pub fn c11_input<F: Fam>(ctx: &Ctx, sw: &Sweep, b: &[u8]) {
    let (oa, used) = front::async_whole::<F>(b);
    let (op, tb, _) = front::poll_slice::<F>(b);
    ctx.eval(2);
    ctx.trans(2);
    let mut any = false;
    if let Out::Pkt(p) = &oa {
        any = true;
        // the blocking decoder is the async decoder on a slice; consumption measured with the cursor
        c11_accept::<F>(ctx, b, "async/blocking", p, used);
    }
    if let (Out::Pkt(p), Some((total, _))) = (&op, tb) {
        any = true;
        if oa != op {
            c11_accept::<F>(ctx, b, "poll", p, total);
        }
    }
    if any {
        sw.accepted.fetch_add(1, Relaxed);
    }
}

pub fn c11(ctx: &Ctx) {
    ctx.set_rule("every input of the byte universes (C03) plus all legal non-canonical spellings (long forms, non-minimal remaining / property / subscription-identifier integers, permuted properties) and frame ++ suffix that ANY front-end accepts: the returned packet re-encodes without error or panic, the re-encoding decodes to the same packet on all three front-ends with exact total, and is no longer than the bytes consumed (async cursor / poll total). Non-trivial = accepted inputs");
    fn fam<F: Fam>(ctx: &Ctx) {
        let sw = Sweep { ctx, nontrivial: AtomicU64::new(0), accepted: AtomicU64::new(0) };
        all_byte_universes::<F>(ctx, &|b| c11_input::<F>(ctx, &sw, b), &|_| {}, true);
        // every U_val value in its canonical encoding is accepted: include them so that all enum variants pass through
        let (u, _) = crate::checks::values::universe(F::FAMILY, ctx);
        crate::checks::values::for_items(&u, &|_, a| {
            if let Some(b) = enc::encode_bytes(F::FAMILY, a) {
                if b.len() < 100_000 {
                    c11_input::<F>(ctx, &sw, &b);
                }
            }
        });
        crate::checks::history::decode_history::<F>(ctx, "C11");
        crate::checks::history::encode_history::<F>(ctx, "C11");
        ctx.count(&format!("{}_reference_encodings_of_U_val", F::NAME), u.len() as u64);
        ctx.nontriv(sw.accepted.load(Relaxed));
        ctx.state(sw.accepted.load(Relaxed));
    }
    fam::<V3>(ctx);
    fam::<V5>(ctx);
    ctx.sample(json!({"input": "90 03 00 01 80", "expect": "v3 SUBACK failure code re-encodes as 80"}));
    ctx.sample(json!({"input": "40 04 00 01 00 00", "expect": "v5 PUBACK long form re-encodes as the 4-byte short form"}));
    ctx.sample(json!({"input": "82 08 00 01 03 0b 80 00 00 01 61 00 (non-minimal subscription identifier)", "expect": "projection onto the canonical form"}));
}

// ---------------------------------------------------------------------------------------------
// C12

fn c12_check_pkt<F: Fam>(ctx: &Ctx, b: &[u8], front_name: &str, o: &Out<F>, sw: &Sweep) {
    if let Out::Pkt(p) = o {
        sw.accepted.fetch_add(1, Relaxed);
        ctx.trace(1);
        match guard(|| F::walk(p)) {
            Ok(Ok(())) => {}
            Ok(Err(w)) => ctx.violation(
                format!("C12:{}:{}:type{}", F::NAME, w.split(':').next().unwrap_or("?"), F::type_nibble(p)),
                format!("{front_name} decoder on {} returned a packet violating its type invariants: {w}", hex_short(b)),
                case_bytes::<F>(b),
            ),
            Err(m) => ctx.violation(
                format!("C12:{}:accessor-panic:type{}", F::NAME, F::type_nibble(p)),
                format!("{front_name} decoder on {}: walking the returned packet panics: {m} @ {}", hex_short(b), last_panic_loc()),
                case_bytes::<F>(b),
            ),
        }
    }
}

pub fn c12_input<F: Fam>(ctx: &Ctx, sw: &Sweep, b: &[u8]) {
    let ob = front::blocking::<F>(b);
    let (oa, _) = front::async_whole::<F>(b);
    let (op, _, _) = front::poll_slice::<F>(b);
    ctx.eval(3);
    ctx.trans(3);
    c12_check_pkt::<F>(ctx, b, "blocking", &ob, sw);
    c12_check_pkt::<F>(ctx, b, "async", &oa, sw);
    c12_check_pkt::<F>(ctx, b, "poll", &op, sw);
}

/// text placed into every text-bearing field of every packet type
/// The targeted text universe shared by C12 and C03: frames in which one text-bearing field (or a
/// pair of them) of a valid packet is replaced by arbitrary bytes.
pub fn targeted_text_frames<F: Fam>(ctx: &Ctx, long_only: bool) -> Vec<Vec<u8>> {
    use mqtt_ref::enc::{Node, Tag};
    let alpha: [u8; 16] = [0x00, b'a', b'+', b'#', b'/', b'$', 0xC3, 0xA9, 0xE2, 0x82, 0xAC, 0xED, 0xA0, 0x80, 0xF0, 0xFF];
    // all strings of length <= 3 over the alphabet
    let mut texts: Vec<Vec<u8>> = vec![vec![]];
    let mut cur: Vec<Vec<u8>> = vec![vec![]];
    for _ in 0..(if ctx.thorough() { 3 } else { 2 }) {
        let mut next = Vec::new();
        for t in &cur {
            for a in alpha {
                let mut n = t.clone();
                n.push(a);
                next.push(n);
            }
        }
        texts.extend(next.iter().cloned());
        cur = next;
    }
    // longer texts with one bad unit at every position: validators that work on words / blocks
    for len in [4usize, 7, 8, 9, 11, 15, 16, 17, 23, 24, 25, 31, 32, 33, 63, 64, 65, 127, 128, 129] {
        for pos in 0..len {
            for bad in [&[0xFFu8][..], &[0xC0], &[0x80], &[0xED, 0xA0, 0x80], &[0x00], &[b'+'], &[b'#']] {
                if pos + bad.len() <= len {
                    let mut t = vec![b'a'; len];
                    t[pos..pos + bad.len()].copy_from_slice(bad);
                    texts.push(t);
                }
            }
        }
        // a truncated multi-byte sequence at the very end
        let mut t = vec![b'a'; len];
        t[len - 1] = 0xC3;
        texts.push(t);
        let mut t = vec![b'a'; len];
        t[len - 2] = 0xE2;
        t[len - 1] = 0x82;
        texts.push(t);
        // valid multi-byte content
        let mut t = "é".repeat(len / 2).into_bytes();
        if len % 2 == 1 {
            t.push(b'a');
        }
        texts.push(t);
    }
    // long texts of 1-, 2-, 3- and 4-byte characters at every alignment around 256 / 512 / 1024 bytes, clean and
    // with a defect in front or at the end: error paths that cut, copy or quote the offending text
    for total in [250usize, 255, 256, 257, 258, 259, 260, 261, 511, 512, 513, 514, 515, 1023, 1024, 1025, 1026, 1027] {
        for ch in ["a", "é", "好", "😀"] {
            for align in 0..ch.len() {
                for (pre, suf) in [(&b""[..], &b""[..]), (&b"+"[..], &b""[..]), (&b"a/"[..], &b"/#x"[..]), (&b""[..], &b"#"[..]), (&b""[..], &b"\0"[..]), (&b""[..], &[0xFFu8][..]), (&b"$share/g/"[..], &b"/+/#/"[..]), (&b"$share/"[..], &b""[..])] {
                    let mut t: Vec<u8> = pre.to_vec();
                    t.extend(std::iter::repeat(b'a').take(align));
                    while t.len() + ch.len() + suf.len() <= total {
                        t.extend_from_slice(ch.as_bytes());
                    }
                    t.extend_from_slice(suf);
                    texts.push(t);
                }
            }
        }
    }
    if long_only {
        // quick C03: the short and medium texts are inside the byte universes already (bodies over B16, N1)
        texts.retain(|t| t.len() >= 200);
    }
    // share-prefixed texts for the filter fields
    for t in ["$share/g/a", "$share/é/a", "$share/😀/+", "$share/g/\0", "$share/g", "$share//a", "$share/g/+/#"] {
        texts.push(t.as_bytes().to_vec());
    }
    let mut fields = 0u64;
    let mut frames: Vec<Vec<u8>> = Vec::new();
    let mut hosts = u_tiny(F::FAMILY);
    // hosts with every string-bearing property present
    for a in u_small(F::FAMILY) {
        if crate::checks::values::short_debug(&a).matches("Str(").count() + crate::checks::values::short_debug(&a).matches("Pair(").count() >= 1 {
            hosts.push(a);
        }
    }
    hosts.push(Ast::Connect {
        level: if F::FAMILY == Family::V5 { 5 } else { 4 },
        clean: true,
        keep_alive: 1,
        props: vec![],
        client_id: "c".into(),
        will: Some(mqtt_ref::Will {
            qos: 0,
            retain: false,
            props: if F::FAMILY == Family::V5 { vec![mqtt_ref::Prop { id: 0x01, val: mqtt_ref::PVal::Byte(1) }] } else { vec![] },
            topic: "t".into(),
            payload: b"x".to_vec(),
        }),
        username: None,
        password: None,
    });
    let mut seen_sites = std::collections::HashSet::new();
    for a in &hosts {
        let f = match enc::encode(F::FAMILY, a, Spell::default()) {
            Some(f) => f,
            None => continue,
        };
        for (path, tag) in mutate::sites(&f.body) {
            if let Tag::Str(kind) = tag {
                // one host per (packet type, field kind)
                if !seen_sites.insert((a.ptype(), format!("{:?}", kind))) {
                    continue;
                }
                fields += 1;
                for t in &texts {
                    let n = Node::tag(tag, Node::Len16(Box::new(Node::raw(t))));
                    let g = mqtt_ref::enc::Frame { control: f.control, rl_pad: 0, rl_raw: None, body: mutate::replace(&f.body, &path, n) };
                    if let Some(b) = g.bytes() {
                        frames.push(b);
                    }
                }
            }
            if let Tag::Pid = tag {
                if seen_sites.insert((a.ptype(), "pid".to_string())) {
                    for v in [[0u8, 0], [0, 1], [0xFF, 0xFF]] {
                        let g = mqtt_ref::enc::Frame { control: f.control, rl_pad: 0, rl_raw: None, body: mutate::replace(&f.body, &path, Node::tag(tag, Node::raw(&v))) };
                        if let Some(b) = g.bytes() {
                            frames.push(b);
                        }
                    }
                }
            }
            if let Tag::PropVarInt(_, _) = tag {
                for v in [&[0xFFu8, 0xFF, 0xFF, 0x7F][..], &[0xFF, 0xFF, 0xFF, 0xFF, 0x01], &[0x80, 0x80, 0x80, 0x80, 0x00], &[0xFF, 0xFF, 0xFF, 0xFF, 0x7F], &[0x80, 0x80, 0x80, 0x00]] {
                    let g = mqtt_ref::enc::Frame { control: f.control, rl_pad: 0, rl_raw: None, body: mutate::replace(&f.body, &path, Node::tag(tag, Node::raw(v))) };
                    if let Some(b) = g.bytes() {
                        frames.push(b);
                    }
                }
            }
            if let Tag::Bin(mqtt_ref::enc::BinKind::WillPayload) = tag {
                // the will payload behind a payload-format indicator of 1
                let flagged = matches!(a, Ast::Connect { will: Some(w), .. } if w.props.iter().any(|p| p.id == 0x01 && p.val == mqtt_ref::PVal::Byte(1)));
                if flagged && seen_sites.insert((a.ptype(), "will-payload".to_string())) {
                    fields += 1;
                    for t in &texts {
                        let n = Node::tag(tag, Node::Len16(Box::new(Node::raw(t))));
                        let g = mqtt_ref::enc::Frame { control: f.control, rl_pad: 0, rl_raw: None, body: mutate::replace(&f.body, &path, n) };
                        if let Some(b) = g.bytes() {
                            frames.push(b);
                        }
                    }
                }
            }
            if let Tag::Payload(true) = tag {
                for t in &texts {
                    let g = mqtt_ref::enc::Frame { control: f.control, rl_pad: 0, rl_raw: None, body: mutate::replace(&f.body, &path, Node::tag(tag, Node::raw(t))) };
                    if let Some(b) = g.bytes() {
                        frames.push(b);
                    }
                }
            }
        }
    }
    // joint validity: two text fields of one packet that are ill-formed each but well-formed when concatenated
    // (a multi-byte character split between them), for every ordered pair of text fields of the full packets
    let mut pair_sites = 0u64;
    let mut seen_pairs = std::collections::HashSet::new();
    let splits: Vec<(Vec<u8>, Vec<u8>)> = {
        let mut v = Vec::new();
        for ch in ["é", "€", "😀"] {
            let b = ch.as_bytes();
            for k in 1..b.len() {
                v.push((b[..k].to_vec(), b[k..].to_vec()));
                let mut l = vec![b'a'];
                l.extend_from_slice(&b[..k]);
                let mut r = b[k..].to_vec();
                r.push(b'b');
                v.push((l, r));
            }
        }
        v
    };
    for a in mqtt_ref::genfield::bases(F::FAMILY) {
        let f = match enc::encode(F::FAMILY, &a, Spell::default()) {
            Some(f) => f,
            None => continue,
        };
        let strs: Vec<(mutate::Path, Tag)> = mutate::sites(&f.body).into_iter().filter(|(_, t)| matches!(t, Tag::Str(_))).collect();
        for i in 0..strs.len() {
            for j in 0..strs.len() {
                if i == j {
                    continue;
                }
                // every adjacent-in-wire-order pair, and one representative per (type, kind, kind) otherwise
                let adjacent = j == i + 1;
                if !adjacent && !seen_pairs.insert((a.ptype(), format!("{:?}{:?}", strs[i].1, strs[j].1))) {
                    continue;
                }
                pair_sites += 1;
                // equal content in both fields: text that is legal for one kind of field and illegal for another
                // (wildcards / NUL / share shapes / ill-formed UTF-8) - a validation skipped because "the same
                // string was checked already"
                if i < j {
                    for t in [&b"a/#"[..], &b"+"[..], &b"a\0b"[..], &b"$share/g/a"[..], &b"$share/g/"[..], &b"#"[..], &[0xC3u8][..], &[0xFFu8][..], "é".as_bytes(), &b""[..]] {
                        let n1 = Node::tag(strs[i].1, Node::Len16(Box::new(Node::raw(t))));
                        let n2 = Node::tag(strs[j].1, Node::Len16(Box::new(Node::raw(t))));
                        let body = mutate::replace(&mutate::replace(&f.body, &strs[i].0, n1), &strs[j].0, n2);
                        let g = mqtt_ref::enc::Frame { control: f.control, rl_pad: 0, rl_raw: None, body };
                        if let Some(b) = g.bytes() {
                            frames.push(b);
                        }
                    }
                }
                for (l, r) in &splits {
                    let n1 = Node::tag(strs[i].1, Node::Len16(Box::new(Node::raw(l))));
                    let n2 = Node::tag(strs[j].1, Node::Len16(Box::new(Node::raw(r))));
                    let body = mutate::replace(&mutate::replace(&f.body, &strs[i].0, n1), &strs[j].0, n2);
                    let g = mqtt_ref::enc::Frame { control: f.control, rl_pad: 0, rl_raw: None, body };
                    if let Some(b) = g.bytes() {
                        frames.push(b);
                    }
                }
            }
        }
    }
    ctx.count_set(&format!("{}_targeted_text_field_pairs", F::NAME), pair_sites);
    let tag = if long_only { "targeted_long" } else { "targeted" };
    ctx.count_set(&format!("{}_{tag}_text_fields", F::NAME), fields);
    ctx.count_set(&format!("{}_{tag}_texts", F::NAME), texts.len() as u64);
    ctx.count_set(&format!("{}_{tag}_frames", F::NAME), frames.len() as u64);
    frames
}

fn c12_targeted<F: Fam>(ctx: &Ctx, sw: &Sweep) -> u64 {
    let frames = targeted_text_frames::<F>(ctx, false);
    frames.par_iter().for_each(|b| {
        c12_input::<F>(ctx, sw, b);
        // accepted => the reference decoder accepts too (strings really are UTF-8, topics really are topics)
        let (op, _, _) = front::poll_slice::<F>(b);
        if op.is_pkt() {
            if let dec::Verdict::Reject(v) = dec::decode(F::FAMILY, b) {
                ctx.violation(
                    format!("C12:{}:accepted-but-ill-typed:{:?}", F::NAME, std::mem::discriminant(&v)),
                    format!("poll decoder accepts {} although the reference decoder finds {:?}", hex_short(b), v),
                    case_bytes::<F>(b),
                );
            }
        }
    });
    frames.len() as u64
}

pub fn c12(ctx: &Ctx) {
    ctx.set_rule("the invariant walker (every text field valid UTF-8 byte-wise, TopicName/TopicFilter pass the library's own predicates and the reference predicates, shared accessors equal the textual split and do not panic, Pid != 0, VarByteInt < 2^28, UTF-8-flagged payloads valid) on every packet any front-end returns over the byte universes of C03 (including the reference encodings of the value universes U_val, U_size, U_field, U_thresh), plus a targeted universe: for each text-bearing field of each packet type, all byte strings <= 2 (thorough 3) over a 16-byte alphabet of ASCII / wildcard / UTF-8 lead, continuation, surrogate and invalid bytes, and longer strings (4..129 bytes) with one bad unit at every position; strings of 250..1027 bytes of 1- to 4-byte characters at every alignment, clean and defective; for every pair of text fields of a full packet of every type, a multi-byte character split between the two fields at every byte position (each field ill-formed, the concatenation well-formed), and the same text - wildcards, NUL, share shapes, ill-formed UTF-8 - in both fields of the pair; packet identifiers 0/1/FFFF; subscription identifiers around 2^28 in 4- and 5-byte spellings; UTF-8-flagged payloads. Non-trivial = accepted inputs");
    fn fam<F: Fam>(ctx: &Ctx) {
        let sw = Sweep { ctx, nontrivial: AtomicU64::new(0), accepted: AtomicU64::new(0) };
        let n = c12_targeted::<F>(ctx, &sw);
        ctx.state(n);
        all_byte_universes::<F>(ctx, &|b| c12_input::<F>(ctx, &sw, b), &|_| {}, false);
        ctx.nontriv(sw.accepted.load(Relaxed));
    }
    fam::<V3>(ctx);
    fam::<V5>(ctx);
    ctx.sample(json!({"field": "v3 CONNECT client id", "text": "61 61 61 61 61 61 61 61 c0 61 62 (bad unit in the tail of an 11-byte string)"}));
    ctx.sample(json!({"field": "SUBSCRIBE filter", "text": "home/\\0/temp"}));
    ctx.sample(json!({"field": "v5 PUBLISH subscription identifier", "bytes": "ff ff ff ff 01"}));
}

// ---------------------------------------------------------------------------------------------
// Miri leg: the same harness functions on a reduced scope, sequentially, so that Miri can watch
// every execution for undefined behaviour (uninitialised reads, invalid str, out-of-bounds).

pub fn miri_leg(ctx: &Ctx) {
    fn fam<F: Fam>(ctx: &Ctx) {
        let sw = Sweep { ctx, nontrivial: AtomicU64::new(0), accepted: AtomicU64::new(0) };
        // all byte strings of length <= 2 over B16 and the type nibbles
        let mut alpha: Vec<u8> = B16.to_vec();
        alpha.extend((1..=15u8).map(|t| t << 4));
        alpha.extend([0x32, 0x62, 0x82, 0xA2]);
        let mut n = 0u64;
        c03_light::<F>(ctx, &sw, &[]);
        for a in &alpha {
            c03_light::<F>(ctx, &sw, &[*a]);
            for b in &alpha {
                c03_light::<F>(ctx, &sw, &[*a, *b]);
                n += 1;
            }
        }
        ctx.count(&format!("{}_miri_byte_strings", F::NAME), n + alpha.len() as u64 + 1);
        // every packet type and form once: scripted reads, future kept / re-created, end of stream mid-way
        // up to three values per packet type
        let mut per_type: std::collections::BTreeMap<u8, usize> = Default::default();
        let tiny: Vec<Ast> = u_tiny(F::FAMILY)
            .into_iter()
            .rev()
            .filter(|a| {
                let c = per_type.entry(a.ptype()).or_insert(0);
                *c += 1;
                *c <= 3
            })
            .collect();
        let frames = sweeps::frames_of(F::FAMILY, &tiny);
        ctx.count(&format!("{}_miri_frames", F::NAME), frames.len() as u64);
        for f in &frames {
            c03_light::<F>(ctx, &sw, f);
            c03_heavy::<F>(ctx, f);
            c11_input::<F>(ctx, &sw, f);
            // a few single-byte corruptions of each frame
            for i in 0..f.len().min(12) {
                for v in [0x00u8, 0xFF, 0x80] {
                    let mut g = f.clone();
                    g[i] = v;
                    c03_light::<F>(ctx, &sw, &g);
                    c12_input::<F>(ctx, &sw, &g);
                }
            }
        }
        // the poll decoder's explicit state space for the shortest frames, one thread
        let short: Vec<crate::e1::Stream> = frames.iter().filter(|f| f.len() <= 7).take(6).map(|f| crate::e1::Stream::single(f, "miri")).collect();
        crate::checks::pollmc::run_model_threads::<F>(ctx, "C05", "miri", short, 1, 8, 3, true, 1);
        // evil strings (<= 2 bytes over the UTF-8 alphabet) in one text field per packet type
        use mqtt_ref::enc::{Node, Tag};
        let alpha: [u8; 8] = [0x00, b'a', b'+', 0xC3, 0xA9, 0xED, 0xA0, 0xFF];
        let mut texts: Vec<Vec<u8>> = vec![vec![]];
        for a in alpha {
            texts.push(vec![a]);
            for b in alpha {
                texts.push(vec![a, b]);
            }
        }
        texts.push(b"aaaaaaaa\xC0ab".to_vec());
        texts.push("$share/é/a".as_bytes().to_vec());
        let mut m = 0u64;
        let mut host_types = std::collections::BTreeSet::new();
        for a in tiny.iter().filter(|a| host_types.insert(a.ptype())) {
            if let Some(f) = enc::encode(F::FAMILY, a, Spell::default()) {
                if let Some((path, tag)) = mutate::sites(&f.body).into_iter().find(|(_, t)| matches!(t, Tag::Str(_))) {
                    for t in &texts {
                        let n = Node::tag(tag, Node::Len16(Box::new(Node::raw(t))));
                        let g = mqtt_ref::enc::Frame { control: f.control, rl_pad: 0, rl_raw: None, body: mutate::replace(&f.body, &path, n) };
                        if let Some(b) = g.bytes() {
                            c12_input::<F>(ctx, &sw, &b);
                            m += 1;
                        }
                    }
                }
            }
        }
        ctx.count(&format!("{}_miri_text_frames", F::NAME), m);
    }
    fam::<V3>(ctx);
    fam::<V5>(ctx);
}
