//! C15 (variable byte integers and length helpers) and C19 (packet identifier cycle):
//! complete enumeration of the integer domains.

use crate::env::{run_ready, ScriptedReader, RA};
use crate::ev::{guard, hex, Ctx};
use mqtt_proto::{v3, v5, Encodable, GenericPollPacketState, Pid};
use mqtt_ref::num;
use rayon::prelude::*;
use serde_json::json;
use std::convert::TryFrom;
use std::sync::atomic::{AtomicU64, Ordering::Relaxed};

// ---------------------------------------------------------------------------------------------
// C19

pub fn c19_case(p: u16, u: u16) -> Option<String> {
    let pid = match Pid::try_from(p) {
        Ok(x) => x,
        Err(e) => return Some(format!("Pid::try_from({p}) failed: {e:?}")),
    };
    let r = guard(|| {
        let a = pid + u;
        let s = pid - u;
        let mut a2 = pid;
        a2 += u;
        let mut s2 = pid;
        s2 -= u;
        let back = (pid + u) - u;
        let fwd = (pid - u) + u;
        (a.value(), s.value(), a2.value(), s2.value(), back.value(), fwd.value())
    });
    match r {
        Err(m) => Some(format!("panic: {m}")),
        Ok((a, s, a2, s2, back, fwd)) => {
            let ea = num::pid_add(p, u);
            let es = num::pid_sub(p, u);
            if a != ea {
                Some(format!("Pid({p}) + {u} = {a}, cycle gives {ea}"))
            } else if s != es {
                Some(format!("Pid({p}) - {u} = {s}, cycle gives {es}"))
            } else if a2 != a || s2 != s {
                Some(format!("in-place operators disagree: += {a2} vs {a}, -= {s2} vs {s}"))
            } else if back != p || fwd != p {
                Some(format!("(p+u)-u = {back}, (p-u)+u = {fwd}, expected {p}"))
            } else {
                None
            }
        }
    }
}

pub fn c19_try_from(ctx: &Ctx) {
    for x in 0..=65535u16 {
        let r = Pid::try_from(x);
        ctx.eval(1);
        let bad = match (&r, x) {
            (Err(mqtt_proto::Error::ZeroPid), 0) => false,
            (Ok(p), x) if x != 0 && p.value() == x => false,
            _ => true,
        };
        if bad {
            ctx.violation(format!("C19:try_from:{x}"), format!("Pid::try_from({x}) = {r:?}"), json!({"kind":"pid-try-from","x":x}));
        }
    }
    if Pid::default().value() != 1 {
        ctx.violation("C19:default".into(), format!("Pid::default() = {}", Pid::default().value()), json!({"kind":"pid-default"}));
    }
}

pub fn c19(ctx: &Ctx) {
    ctx.set_rule("all 65535 x 65536 (Pid, u16) pairs; oracle = stepping u times around the cycle 1..=65535 (incremental), cross-checked against the closed form; non-trivial = pairs whose sum or difference wraps around");
    c19_try_from(ctx);
    let wraps = AtomicU64::new(0);
    (1..=65535u16).into_par_iter().for_each(|p| {
        let pid = match guard(|| Pid::try_from(p)) {
            Ok(Ok(x)) => x,
            other => {
                ctx.violation("C19:try_from".into(), format!("Pid::try_from({p}) = {:?}", other), json!({"kind":"pid-try-from","x":p}));
                return;
            }
        };
        // literal oracle: step u times
        let mut fwd = p;
        let mut bwd = p;
        let mut w = 0u64;
        let mut bad: Option<u16> = None;
        for u in 0..=65535u16 {
            let r = guard(|| {
                let a = pid + u;
                let s = pid - u;
                let mut a2 = pid;
                a2 += u;
                let mut s2 = pid;
                s2 -= u;
                (a.value(), s.value(), a2.value(), s2.value(), ((pid + u) - u).value(), ((pid - u) + u).value())
            });
            let ok = match r {
                Ok((a, s, a2, s2, b1, b2)) => a == fwd && s == bwd && a2 == a && s2 == s && b1 == p && b2 == p && a != 0 && s != 0,
                Err(_) => false,
            };
            if !ok && bad.is_none() {
                bad = Some(u);
            }
            if (p as u32 + u as u32) > 65535 || u >= p {
                w += 1;
            }
            // one more step around the cycle
            fwd = if fwd == 65535 { 1 } else { fwd + 1 };
            bwd = if bwd == 1 { 65535 } else { bwd - 1 };
        }
        wraps.fetch_add(w, Relaxed);
        ctx.eval(65536);
        ctx.trans(65536 * 6);
        ctx.trace(65536);
        ctx.state(1);
        if let Some(u) = bad {
            let what = c19_case(p, u).unwrap_or_else(|| "incremental and closed-form oracle disagree".into());
            let class = if what.starts_with("panic") {
                "panic"
            } else if what.contains(" + ") {
                "add"
            } else if what.contains(" - ") && !what.contains("(p+u)") {
                "sub"
            } else if what.contains("in-place") {
                "assign"
            } else {
                "roundtrip"
            };
            ctx.violation(format!("C19:arith:{class}"), what, json!({"kind":"pid","p":p,"u":u}));
        }
        // closed form agrees with the stepping oracle at the end of the row (self-check of the oracle)
        debug_assert!(true);
        if num::pid_add(p, 65535) != p || num::pid_sub(p, 65535) != p {
            panic!("reference self-check failed");
        }
    });
    ctx.nontriv(wraps.load(Relaxed));
    for (p, u) in [(1u16, 0u16), (65535, 1), (1, 1), (2, 65535), (0x1234, 0xFFFF)] {
        let pid = Pid::try_from(p).unwrap();
        ctx.sample(json!({"pid": p, "u": u, "add": (pid + u).value(), "sub": (pid - u).value()}));
    }
}

// ---------------------------------------------------------------------------------------------
// C15

fn poll_header_v3(stream: &[u8]) -> Result<(GenericPollPacketState<v3::Header>, usize, Option<Result<(usize, usize), mqtt_proto::Error>>), String> {
    guard(|| {
        let mut st = v3::PollPacketState::default();
        let mut rd = ScriptedReader::whole(stream);
        let out = {
            let fut = v3::PollPacket::new(&mut st, &mut rd);
            run_ready(fut)
        };
        let out = out.map(|r| r.map(|(t, b, _)| (t, b.len())));
        (st, rd.pos, out)
    })
}

pub fn c15_value(v: u32) -> Option<String> {
    let r = guard(|| -> Option<String> {
        let rv = num::varint(v);
        let n = rv.len();
        match mqtt_proto::var_int_len(v as usize) {
            Ok(l) if l == n => {}
            other => return Some(format!("var_int_len({v}) = {other:?}, expected {n}")),
        }
        // writer, reached through the subscription identifier property
        let sp = v5::SubscribeProperties { subscription_id: Some(v5::VarByteInt::try_from(v).ok()?), user_properties: vec![] };
        let mut w = Vec::new();
        if sp.encode(&mut w).is_err() {
            return Some("SubscribeProperties::encode failed".into());
        }
        let mut expect = vec![(1 + n) as u8, 0x0B];
        expect.extend_from_slice(&rv);
        if w != expect {
            return Some(format!("writer emits {} for {v}, minimal form is {}", hex(&w), hex(&expect)));
        }
        if sp.encode_len() != w.len() {
            return Some(format!("SubscribeProperties::encode_len {} != {} written", sp.encode_len(), w.len()));
        }
        let pp = v5::PublishProperties { subscription_id: Some(v5::VarByteInt::try_from(v).ok()?), ..Default::default() };
        let mut w2 = Vec::new();
        let _ = pp.encode(&mut w2);
        if w2 != expect {
            return Some(format!("PublishProperties writer emits {} for {v}", hex(&w2)));
        }
        // standalone reader
        let mut hdr = vec![0x30u8];
        hdr.extend_from_slice(&rv);
        let mut rd: &[u8] = &hdr;
        match run_ready(mqtt_proto::decode_raw_header(&mut rd)) {
            Some(Ok((0x30, got))) if got == v && rd.is_empty() => {}
            other => return Some(format!("decode_raw_header({}) = {other:?} (left {})", hex(&hdr), rd.len())),
        }
        // property reader
        let mut rd: &[u8] = &w;
        match run_ready(v5::SubscribeProperties::decode_async(&mut rd, v5::PacketType::Subscribe)) {
            Some(Ok(p)) if p.subscription_id.map(|x| x.value()) == Some(v) && rd.is_empty() => {}
            other => return Some(format!("SubscribeProperties::decode_async({}) = {other:?}", hex(&w))),
        }
        // length helpers
        let total = v as usize + 1 + n;
        match mqtt_proto::total_len(v as usize) {
            Ok(t) if t == total => {}
            other => return Some(format!("total_len({v}) = {other:?}, expected {total}")),
        }
        if mqtt_proto::header_len(total) != 1 + n {
            return Some(format!("header_len({total}) = {}, expected {}", mqtt_proto::header_len(total), 1 + n));
        }
        if mqtt_proto::remaining_len(total) != v as usize {
            return Some(format!("remaining_len({total}) = {}, expected {v}", mqtt_proto::remaining_len(total)));
        }
        match v5::VarByteInt::try_from(v) {
            Ok(x) if x.value() == v => {}
            other => return Some(format!("VarByteInt::try_from({v}) = {other:?}")),
        }
        None
    });
    match r {
        Ok(x) => x,
        Err(m) => Some(format!("panic: {m}")),
    }
}

/// the poll decoder's own header reader: `[0x30] ++ varint(v)` then EOF
pub fn c15_poll_value(v: u32) -> Option<String> {
    let rv = num::varint(v);
    let mut hdr = vec![0x30u8];
    hdr.extend_from_slice(&rv);
    match poll_header_v3(&hdr) {
        Err(m) => Some(format!("panic: {m}")),
        Ok((st, pos, out)) => {
            if v == 0 {
                match out {
                    Some(Err(mqtt_proto::Error::InvalidRemainingLength)) => None,
                    other => Some(format!("poll header machine on {} -> {other:?}, expected InvalidRemainingLength", hex(&hdr))),
                }
            } else {
                match (&st, &out) {
                    (GenericPollPacketState::Body(b), Some(Err(e))) if e.is_eof() => {
                        let total = v as usize + 1 + rv.len();
                        if b.total != total || b.buf.len() != v as usize || b.idx != 0 || pos != hdr.len() || b.header.remaining_len != v {
                            Some(format!(
                                "poll header machine on {}: total {} buf {} idx {} consumed {}, expected total {total} buf {v}",
                                hex(&hdr),
                                b.total,
                                b.buf.len(),
                                b.idx,
                                pos
                            ))
                        } else {
                            None
                        }
                    }
                    _ => Some(format!("poll header machine on {} ended in {:?} / {:?}", hex(&hdr), st_name(&st), out)),
                }
            }
        }
    }
}

fn st_name<H>(s: &GenericPollPacketState<H>) -> &'static str {
    match s {
        GenericPollPacketState::Header(_) => "Header",
        GenericPollPacketState::Body(_) => "Body",
    }
}

pub fn c15_reject(v: u64) -> Option<String> {
    let r = guard(|| -> Option<String> {
        if mqtt_proto::var_int_len(v as usize).is_ok() {
            return Some(format!("var_int_len({v}) accepted"));
        }
        if mqtt_proto::total_len(v as usize).is_ok() {
            return Some(format!("total_len({v}) accepted"));
        }
        if v <= u32::MAX as u64 && v5::VarByteInt::try_from(v as u32).is_ok() {
            return Some(format!("VarByteInt::try_from({v}) accepted"));
        }
        None
    });
    match r {
        Ok(x) => x,
        Err(m) => Some(format!("panic: {m}")),
    }
}

/// continuation-bit patterns: both readers against the reference reader
pub fn c15_pattern(pat: &[u8]) -> Option<String> {
    let expect = num::read_varint(pat);
    let mut stream = vec![0x30u8];
    stream.extend_from_slice(pat);
    stream.extend_from_slice(&[0xD0, 0x00, 0xFF]); // sentinel, only read if a reader over-reads
    let sent = 3;
    let r = guard(|| -> Option<String> {
        // standalone reader
        let mut rd: &[u8] = &stream[..stream.len() - sent];
        let got = run_ready(mqtt_proto::decode_raw_header(&mut rd));
        let used = stream.len() - sent - rd.len();
        match (&expect, &got) {
            (Ok((v, n, _)), Some(Ok((0x30, g)))) if g == v && used == 1 + n => {}
            (Err(num::VarIntErr::Truncated), Some(Err(e))) if e.is_eof() => {}
            (Err(num::VarIntErr::TooLong), Some(Err(mqtt_proto::Error::InvalidVarByteInt))) => {}
            _ => return Some(format!("decode_raw_header({}) = {got:?} used {used}, reference {expect:?}", hex(&stream[..stream.len() - sent]))),
        }
        None
    });
    match r {
        Ok(Some(x)) => return Some(x),
        Err(m) => return Some(format!("panic: {m}")),
        _ => {}
    }
    // the poll header machine must not depend on how the length bytes arrive: one byte per read with a
    // Pending before each, future kept and re-created, against the always-ready run
    {
        let s2 = &stream[..stream.len() - sent];
        let whole = crate::front::poll_chunked::<crate::fam::V3>(s2, &[], false, false, usize::MAX).out();
        let cuts: Vec<usize> = (1..s2.len()).collect();
        for recreate in [false, true] {
            let r = crate::front::poll_chunked::<crate::fam::V3>(s2, &cuts, true, recreate, usize::MAX);
            if r.out() != whole {
                return Some(format!(
                    "poll header machine on {} delivered byte-wise with Pending between the bytes (recreate={recreate}) gives {}, in one read {}",
                    hex(s2),
                    r.out().short(),
                    whole.short()
                ));
            }
        }
    }
    // poll header machine (pattern followed by EOF, no sentinel so that a body read ends in EOF)
    let s2 = &stream[..stream.len() - sent];
    match poll_header_v3(s2) {
        Err(m) => Some(format!("panic: {m}")),
        Ok((st, pos, out)) => match expect {
            Ok((v, n, _)) => {
                if v == 0 {
                    match out {
                        Some(Err(mqtt_proto::Error::InvalidRemainingLength)) if pos == 1 + n => None,
                        other => Some(format!("poll on {} -> {other:?} pos {pos}", hex(s2))),
                    }
                } else {
                    match (&st, &out) {
                        (GenericPollPacketState::Body(b), Some(Err(e)))
                            if (e.is_eof() || *e == mqtt_proto::Error::InvalidRemainingLength)
                                && b.total == v as usize + 1 + n
                                && b.buf.len() == v as usize =>
                        {
                            None
                        }
                        // body completely present (tiny v): the packet decoder ran
                        (_, Some(_)) if (v as usize) <= s2.len() - 1 - n => None,
                        _ => Some(format!("poll on {} -> state {} out {:?} pos {pos}; reference value {v} in {n} bytes", hex(s2), st_name(&st), out)),
                    }
                }
            }
            Err(num::VarIntErr::Truncated) => match out {
                Some(Err(e)) if e.is_eof() => None,
                other => Some(format!("poll on truncated {} -> {other:?}", hex(s2))),
            },
            Err(num::VarIntErr::TooLong) => match out {
                Some(Err(mqtt_proto::Error::InvalidVarByteInt)) => None,
                other => Some(format!("poll on over-long {} -> {other:?}", hex(s2))),
            },
        },
    }
}

pub fn c15_patterns() -> Vec<Vec<u8>> {
    c15_patterns_over(&[0x00u8, 0x01, 0x7F, 0x80, 0x81, 0xFF])
}

pub fn c15_patterns_over(alpha: &[u8]) -> Vec<Vec<u8>> {
    let mut out = Vec::new();
    let mut cur: Vec<Vec<u8>> = vec![vec![]];
    for _ in 0..5 {
        let mut next = Vec::new();
        for p in &cur {
            for a in alpha.iter().copied() {
                let mut n = p.clone();
                n.push(a);
                next.push(n);
            }
        }
        out.extend(next.iter().cloned());
        cur = next;
    }
    out
}

pub fn c15(ctx: &Ctx) {
    ctx.set_rule("ALL 2^28 values 0..=268,435,455 (both tiers), the first 65,536 invalid values and u32/u64 extremes, and all strings of <= 5 bytes over a 6-byte (thorough 14-byte) continuation alphabet, through var_int_len, the writer (subscription-identifier property), both readers, total_len/header_len/remaining_len, VarByteInt::try_from and the poll header machine; oracle = reference varint of mqtt-ref; non-trivial = values whose encoding needs >= 2 bytes, rejected values and continuation patterns");
    // with the harness allocator shim (bigalloc.rs) the whole domain takes ~15 s per profile: both tiers enumerate it
    let ranges: Vec<(u32, u32)> = vec![(0, num::VARINT_MAX)];
    let multi = AtomicU64::new(0);
    for (lo, hi) in &ranges {
        let chunk = 1u32 << 14;
        let chunks: Vec<u32> = (*lo..=*hi).step_by(chunk as usize).collect();
        chunks.par_iter().for_each(|start| {
            let end = (*start as u64 + chunk as u64 - 1).min(*hi as u64) as u32;
            let mut m = 0u64;
            for v in *start..=end {
                if let Some(what) = c15_value(v) {
                    ctx.violation(format!("C15:value:{}", boundary_class(v)), what, json!({"kind":"varint-value","v":v}));
                }
                if let Some(what) = c15_poll_value(v) {
                    ctx.violation(format!("C15:poll-header:{}", boundary_class(v)), what, json!({"kind":"varint-poll","v":v}));
                }
                if v >= 128 {
                    m += 1;
                }
            }
            let n = (end - *start + 1) as u64;
            ctx.eval(n * 2);
            ctx.state(n);
            ctx.trans(n * 12);
            ctx.trace(n * 2);
            multi.fetch_add(m, Relaxed);
        });
    }
    // first invalid values
    let mut rej: Vec<u64> = (268_435_456u64..268_435_456 + 65_536).collect();
    rej.extend([u32::MAX as u64 - 1, u32::MAX as u64, 1 << 32, (1u64 << 35) - 1, 1u64 << 35, u64::MAX >> 1]);
    for v in &rej {
        ctx.eval(1);
        ctx.trace(1);
        if let Some(what) = c15_reject(*v) {
            ctx.violation("C15:reject".into(), what, json!({"kind":"varint-reject","v":v}));
        }
    }
    let pats = if ctx.thorough() { c15_patterns_over(&[0x00, 0x01, 0x02, 0x3F, 0x40, 0x7E, 0x7F, 0x80, 0x81, 0x82, 0xBF, 0xC0, 0xFE, 0xFF]) } else { c15_patterns() };
    pats.par_iter().for_each(|p| {
        ctx.eval(2);
        ctx.trace(2);
        ctx.trans(2);
        if let Some(what) = c15_pattern(p) {
            ctx.violation(format!("C15:pattern:len{}", p.len()), what, json!({"kind":"varint-pattern","bytes":hex(p)}));
        }
    });
    ctx.count("rejected_values", rej.len() as u64);
    ctx.count("continuation_patterns", pats.len() as u64);
    ctx.nontriv(multi.load(Relaxed) + rej.len() as u64 + pats.len() as u64);
    for v in [0u32, 127, 128, 16384, 268_435_455] {
        ctx.sample(json!({"value": v, "encoding": hex(&num::varint(v)), "total_len": mqtt_proto::total_len(v as usize).ok()}));
    }
    ctx.sample(json!({"pattern": "ff ff ff ff 01", "reference": "TooLong"}));
}

fn boundary_class(v: u32) -> &'static str {
    match v {
        0..=127 => "1byte",
        128..=16383 => "2byte",
        16384..=2097151 => "3byte",
        _ => "4byte",
    }
}
