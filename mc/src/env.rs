//! Environment models: scripted transports and a hand-driven poller (DESIGN.md 3.4).

use std::future::Future;
use std::io;
use std::pin::Pin;
use std::task::{Context, Poll, RawWaker, RawWakerVTable, Waker};
use tokio::io::{AsyncRead, AsyncWrite, ReadBuf};

pub fn noop_waker() -> Waker {
    fn clone(_: *const ()) -> RawWaker {
        RawWaker::new(std::ptr::null(), &VTABLE)
    }
    fn noop(_: *const ()) {}
    static VTABLE: RawWakerVTable = RawWakerVTable::new(clone, noop, noop, noop);
    unsafe { Waker::from_raw(RawWaker::new(std::ptr::null(), &VTABLE)) }
}

/// One answer of the read side of the transport.
#[derive(Clone, Copy, Debug, PartialEq, Eq, Hash)]
pub enum RA {
    /// hand over min(k, capacity, bytes left) bytes (k >= 1); with no bytes left this is a 0-byte read (EOF)
    Deliver(usize),
    Pending,
    /// 0-byte read although bytes may be left (peer closed)
    Eof,
    Err(io::ErrorKind),
}

#[derive(Clone, Debug, Default)]
pub struct ReadLog {
    pub calls: usize,
    pub pendings: usize,
    /// (capacity asked, bytes handed over, destination address) per call that delivered
    pub reads: Vec<(usize, usize, usize)>,
    /// largest capacity asked at a moment when `frame_left` bytes were left in the current frame
    pub over_ask: Option<(usize, usize)>,
    pub budget_exhausted: bool,
}

/// Scripted `AsyncRead`. After the script is exhausted, `after` is repeated.
pub struct ScriptedReader<'a> {
    pub data: &'a [u8],
    pub pos: usize,
    pub script: Vec<RA>,
    pub next: usize,
    pub after: RA,
    pub log: ReadLog,
    /// end of the current frame in `data` (for the frame-bound monitor); `usize::MAX` = unknown
    pub frame_end: usize,
    pub budget: usize,
}

impl<'a> ScriptedReader<'a> {
    pub fn new(data: &'a [u8], script: Vec<RA>, after: RA) -> Self {
        let budget = data.len() * 2 + script.len() + 64;
        ScriptedReader { data, pos: 0, script, next: 0, after, log: ReadLog::default(), frame_end: usize::MAX, budget }
    }
    /// everything at once, then EOF
    pub fn whole(data: &'a [u8]) -> Self {
        Self::new(data, vec![], RA::Deliver(usize::MAX))
    }
    /// one byte per read
    pub fn bytewise(data: &'a [u8]) -> Self {
        Self::new(data, vec![], RA::Deliver(1))
    }
}

impl<'a> AsyncRead for ScriptedReader<'a> {
    fn poll_read(mut self: Pin<&mut Self>, _cx: &mut Context<'_>, buf: &mut ReadBuf<'_>) -> Poll<io::Result<()>> {
        let me = &mut *self;
        me.log.calls += 1;
        if me.log.calls > me.budget {
            me.log.budget_exhausted = true;
            panic!("VERIF-BUDGET: transport polled {} times (budget {})", me.log.calls, me.budget);
        }
        let cap = buf.remaining();
        if me.frame_end != usize::MAX {
            let left = me.frame_end.saturating_sub(me.pos);
            if cap > left && me.log.over_ask.map_or(true, |(c, _)| cap > c) {
                me.log.over_ask = Some((cap, left));
            }
        }
        let a = if me.next < me.script.len() {
            let a = me.script[me.next];
            me.next += 1;
            a
        } else {
            me.after
        };
        match a {
            RA::Pending => {
                me.log.pendings += 1;
                Poll::Pending
            }
            RA::Eof => Poll::Ready(Ok(())),
            RA::Err(k) => Poll::Ready(Err(io::Error::new(k, "injected"))),
            RA::Deliver(k) => {
                let n = k.min(cap).min(me.data.len() - me.pos);
                let dst = unsafe { buf.unfilled_mut().as_ptr() as usize };
                buf.put_slice(&me.data[me.pos..me.pos + n]);
                me.pos += n;
                me.log.reads.push((cap, n, dst));
                Poll::Ready(Ok(()))
            }
        }
    }
}

/// One answer of the write side.
#[derive(Clone, Copy, Debug, PartialEq, Eq, Hash)]
pub enum WA {
    /// accept min(k, len) bytes (k >= 1)
    Accept(usize),
    Pending,
    /// Ok(0)
    Zero,
    Err(io::ErrorKind),
}

pub struct ScriptedWriter {
    pub got: Vec<u8>,
    pub script: Vec<WA>,
    pub next: usize,
    pub after: WA,
    pub calls: usize,
    pub pendings: usize,
    pub flushes: usize,
    pub budget: usize,
}

impl ScriptedWriter {
    pub fn new(script: Vec<WA>, after: WA) -> Self {
        ScriptedWriter { got: Vec::new(), script, next: 0, after, calls: 0, pendings: 0, flushes: 0, budget: 1 << 22 }
    }
    fn answer(&mut self) -> WA {
        self.calls += 1;
        if self.calls > self.budget {
            panic!("VERIF-BUDGET: sink called {} times", self.calls);
        }
        if self.next < self.script.len() {
            let a = self.script[self.next];
            self.next += 1;
            a
        } else {
            self.after
        }
    }
}

impl AsyncWrite for ScriptedWriter {
    fn poll_write(mut self: Pin<&mut Self>, _cx: &mut Context<'_>, buf: &[u8]) -> Poll<io::Result<usize>> {
        match self.answer() {
            WA::Pending => {
                self.pendings += 1;
                Poll::Pending
            }
            WA::Zero => Poll::Ready(Ok(0)),
            WA::Err(k) => Poll::Ready(Err(io::Error::new(k, "injected"))),
            WA::Accept(k) => {
                let n = k.min(buf.len());
                self.got.extend_from_slice(&buf[..n]);
                Poll::Ready(Ok(n))
            }
        }
    }
    fn poll_flush(mut self: Pin<&mut Self>, _cx: &mut Context<'_>) -> Poll<io::Result<()>> {
        self.flushes += 1;
        Poll::Ready(Ok(()))
    }
    fn poll_shutdown(self: Pin<&mut Self>, _cx: &mut Context<'_>) -> Poll<io::Result<()>> {
        Poll::Ready(Ok(()))
    }
}

impl io::Write for ScriptedWriter {
    fn write(&mut self, buf: &[u8]) -> io::Result<usize> {
        match self.answer() {
            // a blocking sink cannot be "not ready": model it as accepting one byte
            WA::Pending => {
                let n = 1.min(buf.len());
                self.got.extend_from_slice(&buf[..n]);
                Ok(n)
            }
            WA::Zero => Ok(0),
            WA::Err(k) => Err(io::Error::new(k, "injected")),
            WA::Accept(k) => {
                let n = k.min(buf.len());
                self.got.extend_from_slice(&buf[..n]);
                Ok(n)
            }
        }
    }
    fn flush(&mut self) -> io::Result<()> {
        self.flushes += 1;
        Ok(())
    }
}

/// Result of driving a future by hand.
pub struct Driven<T> {
    pub out: Option<T>,
    pub polls: usize,
    pub pending_polls: usize,
}

/// Poll `fut` until it is ready or `max_polls` is reached. `pendings()` must return the number of
/// `Pending` answers the transport has given so far; the two booleans record violations of
/// "the subject returns Pending iff the transport did during that poll".
pub fn drive<F: Future>(
    mut fut: Pin<&mut F>,
    max_polls: usize,
    mut pendings: impl FnMut() -> usize,
    spurious_pending: &mut bool,
    swallowed_pending: &mut bool,
) -> Driven<F::Output> {
    let w = noop_waker();
    let mut cx = Context::from_waker(&w);
    let mut polls = 0;
    let mut pending_polls = 0;
    loop {
        let before = pendings();
        polls += 1;
        match fut.as_mut().poll(&mut cx) {
            Poll::Ready(v) => {
                if pendings() != before {
                    *swallowed_pending = true;
                }
                return Driven { out: Some(v), polls, pending_polls };
            }
            Poll::Pending => {
                pending_polls += 1;
                if pendings() == before {
                    *spurious_pending = true;
                }
                if polls >= max_polls {
                    return Driven { out: None, polls, pending_polls };
                }
            }
        }
    }
}

/// Run a future that must complete without ever being pending (always-ready transports).
pub fn run_ready<F: Future>(fut: F) -> Option<F::Output> {
    let mut fut = std::pin::pin!(fut);
    let w = noop_waker();
    let mut cx = Context::from_waker(&w);
    match fut.as_mut().poll(&mut cx) {
        Poll::Ready(v) => Some(v),
        Poll::Pending => None,
    }
}
