//! Tables copied from the OASIS MQTT 5.0 / 3.1.1 specifications.

use crate::ast::ptype::*;

#[derive(Clone, Copy, Debug, PartialEq, Eq, Hash)]
pub enum PType {
    Byte,
    U16,
    U32,
    VarInt,
    Str,
    Bin,
    Pair,
}

pub struct PropDef {
    pub id: u8,
    pub name: &'static str,
    pub typ: PType,
    /// packet types (and WILL) in which the property may appear (MQTT 5.0 table 2-4)
    pub allowed: &'static [u8],
}

/// MQTT 5.0 §2.2.2.2, Table 2-4 "Properties".
pub const PROPS: &[PropDef] = &[
    PropDef { id: 0x01, name: "PayloadFormatIndicator", typ: PType::Byte, allowed: &[PUBLISH, WILL] },
    PropDef { id: 0x02, name: "MessageExpiryInterval", typ: PType::U32, allowed: &[PUBLISH, WILL] },
    PropDef { id: 0x03, name: "ContentType", typ: PType::Str, allowed: &[PUBLISH, WILL] },
    PropDef { id: 0x08, name: "ResponseTopic", typ: PType::Str, allowed: &[PUBLISH, WILL] },
    PropDef { id: 0x09, name: "CorrelationData", typ: PType::Bin, allowed: &[PUBLISH, WILL] },
    PropDef { id: 0x0B, name: "SubscriptionIdentifier", typ: PType::VarInt, allowed: &[PUBLISH, SUBSCRIBE] },
    PropDef { id: 0x11, name: "SessionExpiryInterval", typ: PType::U32, allowed: &[CONNECT, CONNACK, DISCONNECT] },
    PropDef { id: 0x12, name: "AssignedClientIdentifier", typ: PType::Str, allowed: &[CONNACK] },
    PropDef { id: 0x13, name: "ServerKeepAlive", typ: PType::U16, allowed: &[CONNACK] },
    PropDef { id: 0x15, name: "AuthenticationMethod", typ: PType::Str, allowed: &[CONNECT, CONNACK, AUTH] },
    PropDef { id: 0x16, name: "AuthenticationData", typ: PType::Bin, allowed: &[CONNECT, CONNACK, AUTH] },
    PropDef { id: 0x17, name: "RequestProblemInformation", typ: PType::Byte, allowed: &[CONNECT] },
    PropDef { id: 0x18, name: "WillDelayInterval", typ: PType::U32, allowed: &[WILL] },
    PropDef { id: 0x19, name: "RequestResponseInformation", typ: PType::Byte, allowed: &[CONNECT] },
    PropDef { id: 0x1A, name: "ResponseInformation", typ: PType::Str, allowed: &[CONNACK] },
    PropDef { id: 0x1C, name: "ServerReference", typ: PType::Str, allowed: &[CONNACK, DISCONNECT] },
    PropDef { id: 0x1F, name: "ReasonString", typ: PType::Str, allowed: &[CONNACK, PUBACK, PUBREC, PUBREL, PUBCOMP, SUBACK, UNSUBACK, DISCONNECT, AUTH] },
    PropDef { id: 0x21, name: "ReceiveMaximum", typ: PType::U16, allowed: &[CONNECT, CONNACK] },
    PropDef { id: 0x22, name: "TopicAliasMaximum", typ: PType::U16, allowed: &[CONNECT, CONNACK] },
    PropDef { id: 0x23, name: "TopicAlias", typ: PType::U16, allowed: &[PUBLISH] },
    PropDef { id: 0x24, name: "MaximumQoS", typ: PType::Byte, allowed: &[CONNACK] },
    PropDef { id: 0x25, name: "RetainAvailable", typ: PType::Byte, allowed: &[CONNACK] },
    PropDef { id: 0x26, name: "UserProperty", typ: PType::Pair, allowed: &[CONNECT, CONNACK, PUBLISH, WILL, PUBACK, PUBREC, PUBREL, PUBCOMP, SUBSCRIBE, SUBACK, UNSUBSCRIBE, UNSUBACK, DISCONNECT, AUTH] },
    PropDef { id: 0x27, name: "MaximumPacketSize", typ: PType::U32, allowed: &[CONNECT, CONNACK] },
    PropDef { id: 0x28, name: "WildcardSubscriptionAvailable", typ: PType::Byte, allowed: &[CONNACK] },
    PropDef { id: 0x29, name: "SubscriptionIdentifierAvailable", typ: PType::Byte, allowed: &[CONNACK] },
    PropDef { id: 0x2A, name: "SharedSubscriptionAvailable", typ: PType::Byte, allowed: &[CONNACK] },
];

pub const USER_PROPERTY: u8 = 0x26;
pub const SUBSCRIPTION_IDENTIFIER: u8 = 0x0B;
pub const PAYLOAD_FORMAT_INDICATOR: u8 = 0x01;
pub const RESPONSE_TOPIC: u8 = 0x08;

pub fn prop_def(id: u8) -> Option<&'static PropDef> {
    PROPS.iter().find(|p| p.id == id)
}

/// Properties allowed in a given owner (packet type or WILL), in table order.
pub fn props_of(owner: u8) -> Vec<&'static PropDef> {
    PROPS.iter().filter(|p| p.allowed.contains(&owner)).collect()
}

/// Reason codes a v5 packet type may carry (MQTT 5.0 §2.4 table 2-6 and the per-packet tables).
pub fn reason_codes(ptype: u8) -> &'static [u8] {
    match ptype {
        CONNACK => &[
            0x00, 0x80, 0x81, 0x82, 0x83, 0x84, 0x85, 0x86, 0x87, 0x88, 0x89, 0x8A, 0x8C, 0x90, 0x95, 0x97, 0x99,
            0x9A, 0x9B, 0x9C, 0x9D, 0x9F,
        ],
        PUBACK | PUBREC => &[0x00, 0x10, 0x80, 0x83, 0x87, 0x90, 0x91, 0x97, 0x99],
        PUBREL | PUBCOMP => &[0x00, 0x92],
        SUBACK => &[0x00, 0x01, 0x02, 0x80, 0x83, 0x87, 0x8F, 0x91, 0x97, 0x9E, 0xA1, 0xA2],
        UNSUBACK => &[0x00, 0x11, 0x80, 0x83, 0x87, 0x8F, 0x91],
        DISCONNECT => &[
            0x00, 0x04, 0x80, 0x81, 0x82, 0x83, 0x87, 0x89, 0x8B, 0x8D, 0x8E, 0x8F, 0x90, 0x93, 0x94, 0x95, 0x96,
            0x97, 0x98, 0x99, 0x9A, 0x9B, 0x9C, 0x9D, 0x9E, 0x9F, 0xA0, 0xA1, 0xA2,
        ],
        AUTH => &[0x00, 0x18, 0x19],
        _ => &[],
    }
}

/// MQTT 3.1.1 §3.2.2.3 CONNACK return codes.
pub const V3_CONNACK_CODES: &[u8] = &[0, 1, 2, 3, 4, 5];
/// MQTT 3.1.1 §3.9.3 SUBACK return codes.
pub const V3_SUBACK_CODES: &[u8] = &[0, 1, 2, 0x80];

/// Required low nibble of the control byte for every type but PUBLISH (MQTT table 2.2).
pub fn fixed_flags(ptype: u8) -> Option<u8> {
    match ptype {
        PUBREL | SUBSCRIBE | UNSUBSCRIBE => Some(0b0010),
        PUBLISH => None,
        1..=15 => Some(0),
        _ => None,
    }
}
