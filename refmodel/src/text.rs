//! UTF-8 strings, topic names and topic filters per MQTT 3.1.1 / 5.0 §1.5.3(.4), §4.7, §4.8.
//! Everything here is split based; there is no index arithmetic to get wrong.

/// A UTF-8 Encoded String is well formed iff it is valid UTF-8 (no surrogates, no over-long
/// forms, nothing above U+10FFFF) — exactly what `std::str::from_utf8` decides.
pub fn utf8(b: &[u8]) -> Option<&str> {
    std::str::from_utf8(b).ok()
}

pub const MAX_STR: usize = 65_535;

/// MQTT 4.7: a Topic Name must not contain wildcards or U+0000 and must fit a UTF-8 string.
/// (The library deliberately allows the empty name: topic aliases, leniency L4.)
pub fn topic_name_valid(s: &str) -> bool {
    s.len() <= MAX_STR && !s.chars().any(|c| c == '+' || c == '#' || c == '\0')
}

#[derive(Debug, Clone, PartialEq, Eq)]
pub enum Filter<'a> {
    Invalid,
    Plain,
    Shared { group: &'a str, filter: &'a str },
}

/// Level rules of §4.7.1: '#' only as the whole last level, '+' only as a whole level.
fn levels_ok(s: &str) -> bool {
    let levels: Vec<&str> = s.split('/').collect();
    let n = levels.len();
    for (i, l) in levels.iter().enumerate() {
        if l.contains('#') && !(*l == "#" && i == n - 1) {
            return false;
        }
        if l.contains('+') && *l != "+" {
            return false;
        }
    }
    true
}

/// §4.7 / §4.8.2 topic filter classification.
pub fn filter(s: &str) -> Filter<'_> {
    if s.is_empty() || s.len() > MAX_STR || s.contains('\0') {
        return Filter::Invalid;
    }
    if let Some(rest) = s.strip_prefix("$share/") {
        // $share/{ShareName}/{filter}
        let (group, filter) = match rest.split_once('/') {
            Some(x) => x,
            None => return Filter::Invalid,
        };
        if group.is_empty() || group.contains('+') || group.contains('#') {
            return Filter::Invalid;
        }
        if filter.is_empty() || !levels_ok(filter) {
            return Filter::Invalid;
        }
        return Filter::Shared { group, filter };
    }
    if levels_ok(s) {
        Filter::Plain
    } else {
        Filter::Invalid
    }
}

pub fn filter_valid(s: &str) -> bool {
    filter(s) != Filter::Invalid
}

#[cfg(test)]
mod tests {
    use super::*;
    #[test]
    fn filters() {
        for ok in ["a", "#", "+", "a/+/b", "/", "//", "a/#", "+/+", "$share", "$sharex/+", "$SYS/#", "/+", "+/"] {
            assert_eq!(filter(ok), Filter::Plain, "{ok}");
        }
        for bad in ["", "a#", "#/a", "a/#/b", "+a", "a+", "a/+b", "a/b+/c", "##", "++", "\0", "a/\0", "$share/", "$share/g", "$share/g/", "$share//a", "$share/+/a", "$share/g#/a", "$share/g/a#", "+x", "a/+x"] {
            assert_eq!(filter(bad), Filter::Invalid, "{bad}");
        }
        assert_eq!(filter("$share/g/a"), Filter::Shared { group: "g", filter: "a" });
        assert_eq!(filter("$share/é/+/#"), Filter::Shared { group: "é", filter: "+/#" });
        assert_eq!(filter("$share/g//"), Filter::Shared { group: "g", filter: "/" });
        assert_eq!(filter("$share/g/$share/h/x"), Filter::Shared { group: "g", filter: "$share/h/x" });
        assert!(topic_name_valid(""));
        assert!(topic_name_valid("a/b"));
        assert!(!topic_name_valid("a/+"));
        assert!(!topic_name_valid("#"));
        assert!(!topic_name_valid("a\0"));
    }
}
