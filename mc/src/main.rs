//! mqtt-mc: bounded-exhaustive model checking harness for mqtt-proto (see /verif/DESIGN.md).
//!
//!   mqtt-mc <ID> --tier quick|thorough --profile <name> --out <part.json>
//!   mqtt-mc replay <file>

mod astjson;
mod bigalloc;
mod bind;
mod checks;
mod e1;
mod env;
mod ev;
mod fam;
mod front;
mod replay;

use ev::{Ctx, Tier};

#[cfg(not(miri))]
#[global_allocator]
static GLOBAL: bigalloc::BigCache = bigalloc::BigCache;
use std::time::Instant;

fn main() {
    let args: Vec<String> = std::env::args().collect();
    if args.len() < 2 {
        eprintln!("usage: mqtt-mc <ID> [--tier quick|thorough] [--profile name] [--out file] | replay <file>");
        std::process::exit(2);
    }
    ev::install_quiet_panic_hook();
    if args[1] == "replay" {
        std::process::exit(replay::run(&args[2]));
    }
    let mut tier = match std::env::var("VERIF_TIER").as_deref() {
        Ok("thorough") => Tier::Thorough,
        _ => Tier::Quick,
    };
    let seed: u64 = std::env::var("VERIF_SEED").ok().and_then(|s| s.parse().ok()).unwrap_or(0);
    let mut profile = String::from("unknown");
    let mut out: Option<String> = None;
    let mut i = 2;
    while i < args.len() {
        match args[i].as_str() {
            "--tier" => {
                tier = if args[i + 1] == "thorough" { Tier::Thorough } else { Tier::Quick };
                i += 1;
            }
            "--profile" => {
                profile = args[i + 1].clone();
                i += 1;
            }
            "--out" => {
                out = Some(args[i + 1].clone());
                i += 1;
            }
            _ => {}
        }
        i += 1;
    }
    let id = args[1].as_str();
    let t0 = Instant::now();
    let ctx = Ctx::new(id, tier, seed, &profile);
    ctx.info("debug_assertions", serde_json::json!(cfg!(debug_assertions)));
    if id != "miri-leg" {
        ctx.info("threads", serde_json::json!(rayon::current_num_threads()));
    }
    if !checks::ALL.contains(&id) && id != "miri-leg" {
        eprintln!("unknown check {id}");
        std::process::exit(2);
    }
    // A panic that escapes the per-call guards: in subject code it is a violation (no decoder, encoder,
    // constructor or accessor may panic on the inputs the checks feed it); in harness code a machinery error.
    if let Err(msg) = ev::guard(|| checks::run(id, &ctx)) {
        let loc = ev::LAST_PANIC_ANYWHERE.lock().map(|g| g.clone()).unwrap_or_default();
        if loc.starts_with("/repo/") || loc.contains("/repo/src/") {
            ctx.violation(
                format!("{id}:panic-in-subject:{}", loc.rsplit('/').next().unwrap_or("")),
                format!("the subject panicked outside a guarded call while {id} was running: {msg} @ {loc} (the run stopped there; coverage is partial)"),
                serde_json::json!({"kind": "panic", "location": loc, "message": msg}),
            );
            ctx.capped("the run was cut short by a panic in the subject");
        } else if loc.contains("library/core/src/fmt") || loc.contains("library/core/src/str") || loc.contains("library/alloc/src/str") {
            // the harness only ever formats its own (well-formed) values and values the subject returned: a panic
            // inside core's string formatting means a returned packet or error holds text that is not UTF-8
            let msg = String::from_utf8_lossy(msg.as_bytes()).into_owned();
            ctx.violation(
                format!("{id}:returned-value-with-ill-formed-text"),
                format!("formatting a value returned by the subject panicked inside core's string code ({msg} @ {loc}): the value holds a String that is not UTF-8 (the run stopped there; coverage is partial)"),
                serde_json::json!({"kind": "panic", "location": loc, "message": msg}),
            );
            ctx.capped("the run was cut short by an unprintable value returned by the subject");
        } else {
            let msg = String::from_utf8_lossy(msg.as_bytes()).into_owned();
            ctx.info("machinery_error", serde_json::json!(format!("harness panic: {msg} @ {loc}")));
        }
    }
    let j = ctx.to_json(t0.elapsed().as_secs_f64());
    let machinery = ctx.info.lock().unwrap().get("machinery_error").cloned();
    // whatever the subject handed back, the part file is valid UTF-8
    let text = serde_json::to_string_pretty(&j).unwrap();
    let text = String::from_utf8_lossy(text.as_bytes()).into_owned();
    match out {
        Some(p) => std::fs::write(&p, text).expect("write part file"),
        None => println!("{text}"),
    }
    if let Some(m) = machinery {
        // reported through the part file; the driver decides (violations take precedence over a machinery error)
        eprintln!("MACHINERY: {m}");
    }
}
