//! Byte-level universes shared by C03, C04, C06, C11, C12 (DESIGN.md 3.2).

use crate::checks::values::{u_small, B16};
use crate::ev::Ctx;
use mqtt_ref::enc::{self, Form, Spell};
use mqtt_ref::{num, Ast, Family};
use rayon::prelude::*;

/// all byte strings of length 0..=n
pub fn u_bytes(n: usize, f: &(dyn Fn(&[u8]) + Sync)) -> u64 {
    let mut total = 0u64;
    for len in 0..=n {
        let count = 256u64.pow(len as u32);
        total += count;
        if len <= 1 {
            for x in 0..count {
                let b = [x as u8];
                f(&b[..len]);
            }
            continue;
        }
        // parallel over the first two bytes
        (0..65536u32).into_par_iter().for_each(|hi| {
            let mut buf = vec![0u8; len];
            buf[0] = (hi >> 8) as u8;
            buf[1] = hi as u8;
            let rest = len - 2;
            let n = 256u64.pow(rest as u32);
            for x in 0..n {
                let mut y = x;
                for i in 0..rest {
                    buf[2 + i] = y as u8;
                    y >>= 8;
                }
                f(&buf);
            }
        });
    }
    total
}

pub fn legal_controls(fam: Family) -> Vec<u8> {
    let mut v = Vec::new();
    for t in 1..=15u8 {
        if t == 15 && fam == Family::V3 {
            continue;
        }
        if t == 3 {
            for fl in 0..16u8 {
                if (fl >> 1) & 3 != 3 {
                    v.push((t << 4) | fl);
                }
            }
        } else {
            v.push((t << 4) | mqtt_ref::tables::fixed_flags(t).unwrap());
        }
    }
    v
}

/// all complete frames: every control byte x remaining length r <= full_r x all 256^r bodies,
/// plus for r in b16_from..=b16_to all bodies over B16 for the legal control bytes.
pub fn u_frame(fam: Family, full_r: usize, b16_from: usize, b16_to: usize, f: &(dyn Fn(&[u8]) + Sync)) -> u64 {
    let mut total = 0u64;
    let legal = legal_controls(fam);
    for r in 0..=full_r {
        let n = 256u64.pow(r as u32);
        // all 256 control bytes up to remaining length 2; beyond that the legal ones (an illegal
        // control byte is rejected from the header alone, whatever follows)
        let controls: Vec<u32> = if r <= 2 { (0..256u32).collect() } else { legal.iter().map(|c| *c as u32).collect() };
        total += controls.len() as u64 * n;
        controls.into_par_iter().for_each(|c| {
            let outer = if r >= 2 { 256 } else { 1 };
            (0..outer).into_par_iter().for_each(|o| {
                let mut buf = vec![0u8; 2 + r];
                buf[0] = c as u8;
                buf[1] = r as u8;
                let inner_bytes = if r >= 2 { r - 1 } else { r };
                if r >= 2 {
                    buf[2 + r - 1] = o as u8;
                }
                let m = 256u64.pow(inner_bytes as u32);
                for x in 0..m {
                    let mut y = x;
                    for i in 0..inner_bytes {
                        buf[2 + i] = y as u8;
                        y >>= 8;
                    }
                    f(&buf);
                }
            });
        });
    }
    let controls = legal_controls(fam);
    for r in b16_from..=b16_to {
        let n = 16u64.pow(r as u32);
        total += controls.len() as u64 * n;
        let work: Vec<(u8, u64)> = controls.iter().flat_map(|c| (0..256u64).map(move |o| (*c, o))).collect();
        work.par_iter().for_each(|(c, o)| {
            // the first two body symbols are fixed by `o`
            let mut buf = vec![0u8; 2 + r];
            buf[0] = *c;
            buf[1] = r as u8;
            buf[2] = B16[(*o & 15) as usize];
            buf[3] = B16[(*o >> 4) as usize];
            let rest = r - 2;
            let m = 16u64.pow(rest as u32);
            for x in 0..m {
                let mut y = x;
                for i in 0..rest {
                    buf[4 + i] = B16[(y & 15) as usize];
                    y >>= 4;
                }
                f(&buf);
            }
        });
    }
    total
}

/// canonical and alternative-spelling encodings of a value list
pub fn frames_of(fam: Family, asts: &[Ast]) -> Vec<Vec<u8>> {
    let mut out = Vec::new();
    for a in asts {
        for form in [Form::Canon, Form::CodeOnly, Form::Full] {
            if let Some(fr) = enc::encode(fam, a, Spell { form, ..Default::default() }) {
                if let Some(b) = fr.bytes() {
                    out.push(b);
                }
            }
        }
    }
    out.sort();
    out.dedup();
    out
}

pub fn small_frames(fam: Family, max_len: usize) -> Vec<Vec<u8>> {
    frames_of(fam, &u_small(fam)).into_iter().filter(|f| f.len() <= max_len).collect()
}

/// positions of the length fields of a frame found by a generic scan: remaining length is known,
/// 2-byte lengths are guessed at every position whose value fits the rest (over-approximation)
fn reframe(b: &[u8], body: &[u8]) -> Vec<u8> {
    let mut out = vec![b[0]];
    if body.len() as u64 <= num::VARINT_MAX as u64 {
        out.extend_from_slice(&num::varint(body.len() as u32));
    }
    out.extend_from_slice(body);
    out
}

/// N1(f): complete single-edit neighbourhood, raw (remaining length untouched) and re-framed.
pub fn n1(f: &[u8], emit: &mut dyn FnMut(&[u8])) -> u64 {
    let mut n = 0u64;
    let hl = match mqtt_ref::dec::header(f) {
        Ok(h) => h.2,
        Err(_) => return 0,
    };
    let mut buf = f.to_vec();
    // substitutions
    for i in 0..f.len() {
        for v in 0..=255u8 {
            if v != f[i] {
                buf[i] = v;
                emit(&buf);
                n += 1;
            }
        }
        buf[i] = f[i];
    }
    // deletions and insertions, raw and re-framed
    for i in 0..f.len() {
        let mut d = f.to_vec();
        d.remove(i);
        emit(&d);
        n += 1;
        if i >= hl {
            let mut body = f[hl..].to_vec();
            body.remove(i - hl);
            emit(&reframe(f, &body));
            n += 1;
        }
    }
    for i in 0..=f.len() {
        for v in B16 {
            let mut d = f.to_vec();
            d.insert(i, v);
            emit(&d);
            n += 1;
            if i >= hl {
                let mut body = f[hl..].to_vec();
                body.insert(i - hl, v);
                emit(&reframe(f, &body));
                n += 1;
            }
        }
    }
    // every 16-bit window rewritten as a length field: 0, 1, actual-1, actual+1, max (raw and re-framed are the same size)
    for i in hl..f.len().saturating_sub(1) {
        let cur = u16::from_be_bytes([f[i], f[i + 1]]);
        for v in [0u16, 1, 2, 3, 4, 5, 6, 7, 8, 9, 15, 16, 17, cur.wrapping_sub(1), cur.wrapping_add(1), 0xFFFF, (f.len() - i - 2) as u16, (f.len() - i - 1) as u16] {
            if v != cur {
                let mut d = f.to_vec();
                d[i..i + 2].copy_from_slice(&v.to_be_bytes());
                emit(&d);
                n += 1;
            }
        }
    }
    // remaining length rewritten
    let rem = f.len() - hl;
    let mut vals: Vec<usize> = vec![127, 128, 16383, 16384, 2_097_151, 2_097_152, 268_435_455];
    vals.extend(0..=(rem + 2).min(64));
    vals.extend([rem.wrapping_sub(1), rem + 1, rem + 2]);
    vals.sort();
    vals.dedup();
    for v in vals {
        if v != rem && v as u64 <= num::VARINT_MAX as u64 {
            let mut d = vec![f[0]];
            d.extend_from_slice(&num::varint(v as u32));
            d.extend_from_slice(&f[hl..]);
            emit(&d);
            n += 1;
        }
    }
    n
}

/// N2: substitutions over B16 at two positions (frames <= 12 bytes)
pub fn n2(f: &[u8], emit: &mut dyn FnMut(&[u8])) -> u64 {
    let mut n = 0u64;
    let mut buf = f.to_vec();
    for i in 0..f.len() {
        for j in (i + 1)..f.len() {
            for a in B16 {
                for b in B16 {
                    if a != f[i] && b != f[j] {
                        buf[i] = a;
                        buf[j] = b;
                        emit(&buf);
                        n += 1;
                    }
                }
            }
            buf[i] = f[i];
            buf[j] = f[j];
        }
    }
    n
}

/// maximal headers followed by 0..=4 bytes over B16
pub fn max_headers(max_extra: usize, f: &(dyn Fn(&[u8]) + Sync)) -> u64 {
    let mut n = 0;
    let heads: Vec<Vec<u8>> = vec![
        vec![0xFF, 0xFF, 0xFF, 0x7F],
        vec![0xFF, 0xFF, 0xFF, 0xFF],
        vec![0x80, 0x80, 0x80, 0x00],
        vec![0x80, 0x80, 0x80, 0x80],
        vec![0xFF, 0xFF, 0x7F],
        vec![0xFF, 0x7F],
    ];
    for c in 0..=255u8 {
        for h in &heads {
            for extra in 0..=max_extra {
                let m = 16u32.pow(extra as u32);
                for x in 0..m {
                    let mut b = vec![c];
                    b.extend_from_slice(h);
                    let mut y = x;
                    for _ in 0..extra {
                        b.push(B16[(y & 15) as usize]);
                        y >>= 4;
                    }
                    f(&b);
                    n += 1;
                }
            }
        }
    }
    n
}

/// all splices f[..i] ++ g[j..] over a frame list
pub fn splices(frames: &[Vec<u8>], f: &(dyn Fn(&[u8]) + Sync)) -> u64 {
    let total: u64 = frames.iter().map(|a| frames.iter().map(|b| ((a.len() + 1) * (b.len() + 1)) as u64).sum::<u64>()).sum();
    frames.par_iter().for_each(|a| {
        let mut buf = Vec::new();
        for b in frames {
            for i in 0..=a.len() {
                for j in 0..=b.len() {
                    buf.clear();
                    buf.extend_from_slice(&a[..i]);
                    buf.extend_from_slice(&b[j..]);
                    f(&buf);
                }
            }
        }
    });
    total
}

pub fn tier_params(ctx: &Ctx) -> (usize, usize, usize, usize) {
    // (U_bytes n, U_frame full r, B16 from, B16 to)
    if ctx.thorough() {
        (4, 3, 4, 6)
    } else {
        (3, 2, 3, 4)
    }
}
