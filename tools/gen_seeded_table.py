#!/usr/bin/env python3
"""Replaces the seeded-changes table in DESIGN.md (between the two markers) from seeded/*/meta.json."""
import json, glob, os, re
rows = []
for d in sorted(glob.glob("/verif/seeded/*/")):
    name = os.path.basename(os.path.dirname(d))
    if not os.path.exists(d + "meta.json"):
        continue
    m = json.load(open(d + "meta.json"))
    caught = m["caught_by_quick"] + m["also_caught_by"]
    rows.append(f"| {name} | {m['breaks_property']} | {m['needs_to_manifest']} | {' '.join(caught) if caught else ('none (must stay quiet: ' + ' '.join(m.get('must_pass_quick', [])) + ')')} |")
table = "<!-- SEEDED-TABLE-BEGIN -->\n| change | breaks | what it needs in order to manifest | quick checks that report it |\n|---|---|---|---|\n" + "\n".join(rows) + "\n<!-- SEEDED-TABLE-END -->"
p = "/verif/DESIGN.md"; s = open(p).read()
if "SEEDED-TABLE-PLACEHOLDER" in s:
    s = s.replace("SEEDED-TABLE-PLACEHOLDER", table)
else:
    s = re.sub(r"<!-- SEEDED-TABLE-BEGIN -->.*<!-- SEEDED-TABLE-END -->", lambda _: table, s, flags=re.S)
open(p, "w").write(s)
print(len(rows), "rows")
