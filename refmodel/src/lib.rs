//! Reference model of the MQTT v3.1 / v3.1.1 / v5.0 wire format, written from
//! the OASIS specifications. It deliberately imports nothing from `mqtt-proto`:
//! it is the independent oracle the checks compare the implementation against.
//!
//! * `ast`    – neutral packet values (integers as integers, codes as `u8`, properties as an ordered list)
//! * `tables` – property table, reason-code tables (copied from the specification)
//! * `num`    – variable byte integers, length helpers, packet-identifier arithmetic
//! * `text`   – UTF-8, topic-name and topic-filter rules (MQTT 4.7 / 4.8), split based
//! * `enc`    – canonical encoder producing a tagged tree (`Node`) so that single faults can be injected
//! * `dec`    – strict recursive-descent decoder of one complete frame
//! * `mutate` – structure-aware fault injection on the tagged tree

pub mod ast;
pub mod dec;
pub mod enc;
pub mod gen;
pub mod genfield;
pub mod mutate;
pub mod num;
pub mod tables;
pub mod text;

pub use ast::*;

#[cfg(test)]
mod selftest {
    use super::*;
    use dec::Verdict;
    #[test]
    fn ref_roundtrip_small() {
        for fam in [Family::V3, Family::V5] {
            let sc = gen::Scope::small();
            let u = gen::u_val(fam, &sc);
            assert!(u.len() > 100);
            let mut n = 0;
            for a in &u {
                for form in [enc::Form::Canon, enc::Form::CodeOnly, enc::Form::Full] {
                    if let Some(f) = enc::encode(fam, a, enc::Spell { form, ..Default::default() }) {
                        let b = f.bytes().unwrap();
                        match dec::decode(fam, &b) {
                            Verdict::Accept { ast, .. } => assert_eq!(&ast, a, "{:02x?}", b),
                            other => panic!("{:?} -> {:02x?} -> {:?}", a, b, other),
                        }
                        n += 1;
                    }
                }
            }
            eprintln!("{:?}: {} values, {} frames", fam, u.len(), n);
        }
    }
}
