#!/usr/bin/env python3
"""Regenerates MANIFEST.json from the table below (kept next to the checks so it never drifts)."""
import json, os
V = os.path.dirname(os.path.abspath(__file__))
props = [json.loads(l) for l in open(os.path.join(V, "properties.jsonl"))]
CLAIMED = json.load(open(os.path.join(V, "claims.json")))
checks, na = [], []
for p in props:
    pid = p["id"]
    c = CLAIMED.get(pid)
    if not c or c.get("not_applicable"):
        na.append({"property_id": pid, "reason": (c or {}).get("not_applicable", "check not built yet in this revision of /verif (see DESIGN.md section 5 for the planned design)")})
        continue
    checks.append({
        "property_id": pid,
        "quick_cmd": f"./check {pid} --tier quick",
        "thorough_cmd": f"./check {pid} --tier thorough",
        "evidence_file": f"/verif/evidence/{pid}.json",
        "replay_cmd_template": "./check replay {path}",
        "engine": c["engine"],
        "level_claimed": {"category": c.get("category", "model_checking"), "text": c["text"], "design_ref": c.get("design_ref", f"DESIGN.md section 5, {pid}")},
        "level_note": c["note"],
        "technique": c["technique"],
    })
m = {
    "version": 1,
    "setup_cmd": "./check build",
    "hooks": {
        "guard": "mqtt_proto_verif",
        "enable": "no hooks are needed: the poll decoder state is public data and every entry point is public; checks build /repo's working tree as a cargo path dependency of /verif/mc",
        "baseline_off_cmd": "cd /repo && cargo test --workspace --no-fail-fast --offline",
        "source_commits": [],
        "add_only": True,
    },
    "engines": [
        {"name": "E1-statespace", "path": "/verif/mc/src/e1.rs", "serves_properties": [p for p, c in CLAIMED.items() if "E1" in c.get("engine", "")], "kind_free_text": "explicit-state BFS (stateright 0.31) whose transition function is the real GenericPollPacket::poll on a restored caller-owned state"},
        {"name": "E2-schedules", "path": "/verif/mc/src/env.rs", "serves_properties": [p for p, c in CLAIMED.items() if "E2" in c.get("engine", "")], "kind_free_text": "stateless deviation-bounded enumeration of transport schedules (short reads/writes, Pending, faults) around the real async/streaming entry points"},
        {"name": "E3-sweep", "path": "/verif/mc/src/checks", "serves_properties": [p for p, c in CLAIMED.items() if "E3" in c.get("engine", "")], "kind_free_text": "bounded-exhaustive enumeration of input universes (values, byte strings, strings, integers), one real execution per input against the reference model /verif/refmodel"},
    ],
    "checks": checks,
    "not_applicable": na,
    "notes": "One harness binary (mqtt-mc) built in two profiles (checked = debug-assertions + overflow-checks, fast = release); every check runs both and merges the evidence. Known findings: /verif/known_findings.json. Seeded property-breaking changes: /verif/seeded/. See DESIGN.md.",
}
json.dump(m, open(os.path.join(V, "MANIFEST.json"), "w"), indent=1)
print(len(checks), "checks,", len(na), "not yet claimed")
