//! AST <-> JSON for replay files (long uniform strings / payloads are run-length encoded).

use mqtt_ref::{Ast, PVal, Prop, Props, Will};
use serde_json::{json, Value};

fn s2j(s: &str) -> Value {
    if s.len() > 64 {
        let mut it = s.chars();
        let c = it.next().unwrap();
        if s.chars().all(|x| x == c) {
            return json!({"rep": c.to_string(), "n": s.chars().count()});
        }
        // prefix + uniform run + suffix
        let chars: Vec<char> = s.chars().collect();
        let mid = chars[chars.len() / 2];
        let a = chars.iter().position(|x| *x == mid).unwrap();
        let mut b = a;
        while b < chars.len() && chars[b] == mid {
            b += 1;
        }
        if b - a > 32 {
            let pre: String = chars[..a].iter().collect();
            let suf: String = chars[b..].iter().collect();
            if pre.len() <= 64 && suf.len() <= 64 {
                return json!({"pre": pre, "rep": mid.to_string(), "n": b - a, "suf": suf});
            }
        }
    }
    json!(s)
}

fn j2s(v: &Value) -> String {
    match v {
        Value::String(s) => s.clone(),
        Value::Object(o) => {
            let pre = o.get("pre").and_then(|x| x.as_str()).unwrap_or("");
            let suf = o.get("suf").and_then(|x| x.as_str()).unwrap_or("");
            let rep = o["rep"].as_str().unwrap();
            let n = o["n"].as_u64().unwrap() as usize;
            format!("{pre}{}{suf}", rep.repeat(n))
        }
        _ => panic!("bad string json"),
    }
}

fn b2j(b: &[u8]) -> Value {
    if b.len() > 64 && b.iter().all(|x| *x == b[0]) {
        return json!({"fill": b[0], "n": b.len()});
    }
    if b.len() > 64 {
        // periodic short pattern
        for p in 1..=8usize {
            if b.iter().enumerate().all(|(i, x)| *x == b[i % p]) {
                return json!({"pattern": crate::ev::hex(&b[..p]), "n": b.len()});
            }
        }
    }
    json!(crate::ev::hex(b))
}

fn j2b(v: &Value) -> Vec<u8> {
    match v {
        Value::String(s) => crate::ev::unhex(s),
        Value::Object(o) => {
            let n = o["n"].as_u64().unwrap() as usize;
            if let Some(f) = o.get("fill") {
                vec![f.as_u64().unwrap() as u8; n]
            } else {
                let p = crate::ev::unhex(o["pattern"].as_str().unwrap());
                (0..n).map(|i| p[i % p.len()]).collect()
            }
        }
        _ => panic!("bad bytes json"),
    }
}

fn props2j(p: &Props) -> Value {
    Value::Array(
        p.iter()
            .map(|x| {
                let v = match &x.val {
                    PVal::Byte(b) => json!({"byte": b}),
                    PVal::U16(b) => json!({"u16": b}),
                    PVal::U32(b) => json!({"u32": b}),
                    PVal::VarInt(b) => json!({"varint": b}),
                    PVal::Str(s) => json!({"str": s2j(s)}),
                    PVal::Bin(b) => json!({"bin": b2j(b)}),
                    PVal::Pair(k, v) => json!({"pair": [s2j(k), s2j(v)]}),
                };
                json!({"id": x.id, "val": v})
            })
            .collect(),
    )
}

fn j2props(v: &Value) -> Props {
    v.as_array()
        .unwrap()
        .iter()
        .map(|x| {
            let id = x["id"].as_u64().unwrap() as u8;
            let o = x["val"].as_object().unwrap();
            let (k, v) = o.iter().next().unwrap();
            let val = match k.as_str() {
                "byte" => PVal::Byte(v.as_u64().unwrap() as u8),
                "u16" => PVal::U16(v.as_u64().unwrap() as u16),
                "u32" => PVal::U32(v.as_u64().unwrap() as u32),
                "varint" => PVal::VarInt(v.as_u64().unwrap() as u32),
                "str" => PVal::Str(j2s(v)),
                "bin" => PVal::Bin(j2b(v)),
                "pair" => PVal::Pair(j2s(&v[0]), j2s(&v[1])),
                _ => panic!("bad prop"),
            };
            Prop { id, val }
        })
        .collect()
}

pub fn to_json(a: &Ast) -> Value {
    match a {
        Ast::Connect { level, clean, keep_alive, props, client_id, will, username, password } => json!({
            "t": "connect", "level": level, "clean": clean, "keep_alive": keep_alive, "props": props2j(props),
            "client_id": s2j(client_id),
            "will": will.as_ref().map(|w| json!({"qos": w.qos, "retain": w.retain, "props": props2j(&w.props), "topic": s2j(&w.topic), "payload": b2j(&w.payload)})),
            "username": username.as_ref().map(|s| s2j(s)), "password": password.as_ref().map(|b| b2j(b)),
        }),
        Ast::Connack { session_present, code, props } => json!({"t": "connack", "sp": session_present, "code": code, "props": props2j(props)}),
        Ast::Publish { dup, qos, retain, topic, pid, props, payload } => {
            json!({"t": "publish", "dup": dup, "qos": qos, "retain": retain, "topic": s2j(topic), "pid": pid, "props": props2j(props), "payload": b2j(payload)})
        }
        Ast::Ack { typ, pid, code, props } => json!({"t": "ack", "typ": typ, "pid": pid, "code": code, "props": props2j(props)}),
        Ast::Subscribe { pid, props, topics } => {
            json!({"t": "subscribe", "pid": pid, "props": props2j(props), "topics": topics.iter().map(|(f, o)| json!([s2j(f), o])).collect::<Vec<_>>()})
        }
        Ast::Suback { pid, props, codes } => json!({"t": "suback", "pid": pid, "props": props2j(props), "codes": b2j(codes)}),
        Ast::Unsubscribe { pid, props, topics } => {
            json!({"t": "unsubscribe", "pid": pid, "props": props2j(props), "topics": topics.iter().map(|f| s2j(f)).collect::<Vec<_>>()})
        }
        Ast::Unsuback { pid, props, codes } => json!({"t": "unsuback", "pid": pid, "props": props2j(props), "codes": b2j(codes)}),
        Ast::Pingreq => json!({"t": "pingreq"}),
        Ast::Pingresp => json!({"t": "pingresp"}),
        Ast::Disconnect { code, props } => json!({"t": "disconnect", "code": code, "props": props2j(props)}),
        Ast::Auth { code, props } => json!({"t": "auth", "code": code, "props": props2j(props)}),
    }
}

pub fn from_json(v: &Value) -> Ast {
    let u8of = |k: &str| v[k].as_u64().unwrap() as u8;
    let u16of = |k: &str| v[k].as_u64().unwrap() as u16;
    let b = |k: &str| v[k].as_bool().unwrap();
    match v["t"].as_str().unwrap() {
        "connect" => Ast::Connect {
            level: u8of("level"),
            clean: b("clean"),
            keep_alive: u16of("keep_alive"),
            props: j2props(&v["props"]),
            client_id: j2s(&v["client_id"]),
            will: if v["will"].is_null() {
                None
            } else {
                let w = &v["will"];
                Some(Will {
                    qos: w["qos"].as_u64().unwrap() as u8,
                    retain: w["retain"].as_bool().unwrap(),
                    props: j2props(&w["props"]),
                    topic: j2s(&w["topic"]),
                    payload: j2b(&w["payload"]),
                })
            },
            username: if v["username"].is_null() { None } else { Some(j2s(&v["username"])) },
            password: if v["password"].is_null() { None } else { Some(j2b(&v["password"])) },
        },
        "connack" => Ast::Connack { session_present: b("sp"), code: u8of("code"), props: j2props(&v["props"]) },
        "publish" => Ast::Publish {
            dup: b("dup"),
            qos: u8of("qos"),
            retain: b("retain"),
            topic: j2s(&v["topic"]),
            pid: v["pid"].as_u64().map(|x| x as u16),
            props: j2props(&v["props"]),
            payload: j2b(&v["payload"]),
        },
        "ack" => Ast::Ack { typ: u8of("typ"), pid: u16of("pid"), code: u8of("code"), props: j2props(&v["props"]) },
        "subscribe" => Ast::Subscribe {
            pid: u16of("pid"),
            props: j2props(&v["props"]),
            topics: v["topics"].as_array().unwrap().iter().map(|t| (j2s(&t[0]), t[1].as_u64().unwrap() as u8)).collect(),
        },
        "suback" => Ast::Suback { pid: u16of("pid"), props: j2props(&v["props"]), codes: j2b(&v["codes"]) },
        "unsubscribe" => {
            Ast::Unsubscribe { pid: u16of("pid"), props: j2props(&v["props"]), topics: v["topics"].as_array().unwrap().iter().map(j2s).collect() }
        }
        "unsuback" => Ast::Unsuback { pid: u16of("pid"), props: j2props(&v["props"]), codes: j2b(&v["codes"]) },
        "pingreq" => Ast::Pingreq,
        "pingresp" => Ast::Pingresp,
        "disconnect" => Ast::Disconnect { code: u8of("code"), props: j2props(&v["props"]) },
        "auth" => Ast::Auth { code: u8of("code"), props: j2props(&v["props"]) },
        other => panic!("bad ast json {other}"),
    }
}

/// short human-readable description for keys
pub fn type_name(a: &Ast) -> &'static str {
    mqtt_ref::ast::ptype::name(a.ptype())
}
