#!/usr/bin/env python3
"""Replaces the coverage table of DESIGN.md 0.7 (between the two markers) from evidence/*.json (quick tier).
The thorough-wall column is kept from the existing table (it comes from the last complete thorough run)."""
import json, re, glob, os
p = "/verif/DESIGN.md"; s = open(p).read()
old = re.search(r"<!-- COVERAGE-TABLE-BEGIN -->(.*)<!-- COVERAGE-TABLE-END -->", s, flags=re.S).group(1)
thorough = {}
for line in old.splitlines():
    m = re.match(r"\| (C\d\d) \|.*\| ([^|]*) \|$", line)
    if m:
        thorough[m.group(1)] = m.group(2).strip()
extra = {}
if os.path.exists("/verif/tools/thorough_walls.json"):
    extra = json.load(open("/verif/tools/thorough_walls.json"))
rows = []
for f in sorted(glob.glob("/verif/evidence/C*.json")):
    e = json.load(open(f)); c = e["coverage"]; pid = e["property_id"]
    if e.get("tier") != "quick":
        continue
    t = extra.get(pid, thorough.get(pid, ""))
    rows.append(f"| {pid} | {c['states']:,} | {c['transitions']:,} | {c['traces_validated_against_impl']:,} | {c['distinct_nontrivial']:,} | {e['wall_s']:.0f} s | {t} |")
table = "<!-- COVERAGE-TABLE-BEGIN -->\n| check | states | transitions | traces validated | distinct non-trivial | quick wall (both profiles) | thorough wall |\n|---|---|---|---|---|---|---|\n" + "\n".join(rows) + "\n<!-- COVERAGE-TABLE-END -->"
s = re.sub(r"<!-- COVERAGE-TABLE-BEGIN -->.*<!-- COVERAGE-TABLE-END -->", lambda _: table, s, flags=re.S)
open(p, "w").write(s)
print(len(rows), "rows")
