//! C16 (topic filter validation), C17 (shared-subscription accessors, comparisons), C18 (topic names):
//! bounded-exhaustive enumeration of strings over one representative per character class.

use crate::ev::{guard, Ctx};
use crate::fam::{Fam, V3, V5};
use mqtt_proto::{TopicFilter, TopicName};
use mqtt_ref::ast::{Ast, Prop, PVal, Will};
use mqtt_ref::enc;
use mqtt_ref::text::{self, Filter};
use rayon::prelude::*;
use serde_json::json;
use std::collections::hash_map::DefaultHasher;
use std::convert::TryFrom;
use std::hash::{Hash, Hasher};
use std::sync::atomic::{AtomicU64, Ordering::Relaxed};

/// all strings of length 0..=max over `alpha`, handed to `f` in parallel
pub fn for_all_strings(alpha: &[char], max: usize, f: &(dyn Fn(&str) + Sync)) -> u64 {
    let k = alpha.len() as u64;
    let mut total = 0u64;
    for len in 0..=max {
        let n = k.pow(len as u32);
        total += n;
        let chunk = 4096u64;
        let chunks: Vec<u64> = (0..n).step_by(chunk as usize).collect();
        chunks.par_iter().for_each(|start| {
            let mut s = String::with_capacity(len * 4);
            for idx in *start..(*start + chunk).min(n) {
                s.clear();
                let mut x = idx;
                for _ in 0..len {
                    s.push(alpha[(x % k) as usize]);
                    x /= k;
                }
                f(&s);
            }
        });
    }
    total
}

/// all concatenations of 0..=max tokens from `tokens`, handed to `f` in parallel (token-level words:
/// protocol words such as "$share" or "$SYS" used as share names, levels and prefixes of themselves)
pub fn for_all_token_strings(tokens: &[&str], max: usize, f: &(dyn Fn(&str) + Sync)) -> u64 {
    let k = tokens.len() as u64;
    let mut total = 0u64;
    for len in 0..=max {
        let n = k.pow(len as u32);
        total += n;
        let chunk = 4096u64;
        let chunks: Vec<u64> = (0..n).step_by(chunk as usize).collect();
        chunks.par_iter().for_each(|start| {
            let mut s = String::with_capacity(len * 8);
            for idx in *start..(*start + chunk).min(n) {
                s.clear();
                let mut x = idx;
                for _ in 0..len {
                    s.push_str(tokens[(x % k) as usize]);
                    x /= k;
                }
                f(&s);
            }
        });
    }
    total
}

pub const FILTER_TOKENS: [&str; 13] = ["$share", "$share/", "/", "a", "+", "#", "$", "$SYS", "é", "g/", " ", "$shar", "share"];

fn shape(s: &str) -> String {
    if s.len() <= 40 {
        format!("{:?}", s)
    } else {
        let head: String = s.chars().take(12).collect();
        let tail: String = s.chars().rev().take(12).collect::<Vec<_>>().into_iter().rev().collect();
        format!("{:?}..({} bytes)..{:?}", head, s.len(), tail)
    }
}

// ---------------------------------------------------------------------------------------------
// C16

fn sub_frame<F: Fam>(s: &str, unsub: bool) -> Option<Vec<u8>> {
    let ast = if unsub {
        Ast::Unsubscribe { pid: 1, props: vec![], topics: vec![s.to_string()] }
    } else {
        Ast::Subscribe { pid: 1, props: vec![], topics: vec![(s.to_string(), 1)] }
    };
    enc::encode_bytes(F::FAMILY, &ast)
}

/// the packet door for one string
fn c16_packet_door<F: Fam>(s: &str, valid: bool) -> Option<String> {
    for unsub in [false, true] {
        let frame = sub_frame::<F>(s, unsub)?;
        let r = guard(|| F::decode(&frame));
        match r {
            Err(m) => return Some(format!("{} {} panics on filter {}: {m}", F::NAME, if unsub { "UNSUBSCRIBE" } else { "SUBSCRIBE" }, shape(s))),
            Ok(Ok(Some(_))) if valid => {}
            Ok(Err(e)) if !valid => {
                if F::as_common(&e) != Some(&mqtt_proto::Error::InvalidTopicFilter(s.to_string())) {
                    return Some(format!("{} decoder rejects filter {} with {:?}, expected InvalidTopicFilter(text)", F::NAME, shape(s), e));
                }
            }
            Ok(other) => {
                return Some(format!(
                    "{} {} with filter {}: {} but the specification says the filter is {}",
                    F::NAME,
                    if unsub { "UNSUBSCRIBE" } else { "SUBSCRIBE" },
                    shape(s),
                    match other {
                        Ok(Some(_)) => "accepted".to_string(),
                        Ok(None) => "incomplete".to_string(),
                        Err(e) => format!("rejected ({e:?})"),
                    },
                    if valid { "valid" } else { "invalid" }
                ))
            }
        }
    }
    None
}

pub fn c16_one(s: &str, packet_doors: bool) -> Option<String> {
    let expect = text::filter(s);
    let valid = expect != Filter::Invalid;
    let r = guard(|| TopicFilter::is_invalid(s));
    let (inv, idx) = match r {
        Ok(x) => x,
        Err(m) => return Some(format!("TopicFilter::is_invalid({}) panics: {m}", shape(s))),
    };
    if inv == valid {
        return Some(format!("TopicFilter::is_invalid({}) = {inv}, specification says {}", shape(s), if valid { "valid" } else { "invalid" }));
    }
    if valid {
        let want = match &expect {
            Filter::Shared { group, .. } => 7 + group.len(),
            _ => 0,
        };
        if idx as usize != want {
            return Some(format!("TopicFilter::is_invalid({}) reports separator index {idx}, expected {want}", shape(s)));
        }
    }
    match guard(|| TopicFilter::try_from(s.to_string())) {
        Err(m) => return Some(format!("TopicFilter::try_from({}) panics: {m}", shape(s))),
        Ok(Ok(f)) => {
            if !valid {
                return Some(format!("TopicFilter::try_from({}) accepted an invalid filter", shape(s)));
            }
            if &*f != s {
                return Some(format!("TopicFilter::try_from({}) holds different text", shape(s)));
            }
        }
        Ok(Err(e)) => {
            if valid {
                return Some(format!("TopicFilter::try_from({}) rejected a valid filter: {e:?}", shape(s)));
            }
            if e != mqtt_proto::Error::InvalidTopicFilter(s.to_string()) {
                return Some(format!("TopicFilter::try_from({}) error {e:?}", shape(s)));
            }
        }
    }
    if packet_doors && s.len() <= 65535 {
        if let Some(w) = c16_packet_door::<V3>(s, valid) {
            return Some(w);
        }
        if let Some(w) = c16_packet_door::<V5>(s, valid) {
            return Some(w);
        }
    }
    None
}

const C16_PREFIXES: &[&str] =
    &["$share/", "$share", "$shar/", "$Share/g/", "$share//", "$share/g", "$share/g/", "$share/é/", "$share/g/$share/", "$share/€😀/"];

fn mutated_share_prefixes() -> Vec<String> {
    let base: Vec<char> = "$share/".chars().collect();
    let mut out = Vec::new();
    for i in 0..base.len() {
        for sub in ['x', 'S', '/', '$', '+'] {
            if base[i] != sub {
                let mut c = base.clone();
                c[i] = sub;
                out.push(c.iter().collect::<String>() + "g/");
            }
        }
        // a dropped and a doubled letter
        let mut c = base.clone();
        c.remove(i);
        out.push(c.iter().collect::<String>() + "g/");
        let mut c = base.clone();
        c.insert(i, base[i]);
        out.push(c.iter().collect::<String>() + "g/");
    }
    out
}

/// long strings around the 65,535-byte limit
pub fn long_strings(cores: &[String], with_share: bool) -> Vec<String> {
    let mut out = Vec::new();
    for core in cores {
        for total in [65534usize, 65535, 65536] {
            if core.len() > total {
                continue;
            }
            let pad = total - core.len();
            out.push(format!("{}{}", "a".repeat(pad), core)); // padded on the left
            out.push(format!("{}{}", core, "a".repeat(pad))); // on the right
            if pad >= 1 {
                out.push(format!("{}/{}", core, "a".repeat(pad - 1))); // as an extra level
                out.push(format!("{}/{}", "a".repeat(pad - 1), core));
            }
            // 2-byte padding: straddles the limit by byte length, not by character count
            if pad >= 2 {
                let e = pad / 2;
                let fill = if pad % 2 == 1 { "a" } else { "" };
                out.push(format!("{}{}{}", "é".repeat(e), fill, core));
                out.push(format!("{}/{}{}", core, "é".repeat((pad - 1) / 2), if (pad - 1) % 2 == 1 { "a" } else { "" }));
            }
            if with_share && pad >= 10 {
                out.push(format!("$share/g/{}{}", "a".repeat(pad - 9), core));
                out.push(format!("$share/{}/{}", "g".repeat(pad - 8), core));
            }
        }
        // many characters, few enough chars: 32768 two-byte characters = 65536 bytes
        out.push(format!("{}{}", "é".repeat(32768), core));
        out.push(format!("{}{}", "é".repeat(32767), core));
        out.push(format!("{}{}", "😀".repeat(16384), core));
    }
    out
}

pub fn c16(ctx: &Ctx) {
    let sigma = ['/', '+', '#', '$', 'a', '\0', 'é'];
    let (n_plain, n_pref, n_mut) = if ctx.thorough() { (9, 7, 5) } else { (8, 6, 4) };
    ctx.set_rule(&format!(
        "all strings of length <= {n_plain} over {{'/','+','#','$','a',NUL,'é'}} alone, of length <= {n_pref} behind {} '$share' prefix shapes and of length <= {n_mut} behind every single-letter mutation of '$share/'; all concatenations of <= 5 (thorough 6) tokens from $share, $share/, /, a, +, #, $, $SYS, é, g/, space, $shar, share; padded long strings around 65,535 bytes; each through is_invalid, try_from and SUBSCRIBE/UNSUBSCRIBE of both families; oracle = split-based predicate of mqtt-ref::text; non-trivial = strings the specification accepts",
        C16_PREFIXES.len()
    ));
    let accepted = AtomicU64::new(0);
    let check = |s: &str, doors: bool| {
        ctx.eval(1);
        if text::filter_valid(s) {
            accepted.fetch_add(1, Relaxed);
        }
        if let Some(what) = c16_one(s, doors) {
            ctx.violation(format!("C16:{}", class_of(s)), what, json!({"kind":"filter","s":s}));
        }
    };
    let mut total = for_all_strings(&sigma, n_plain, &|s| check(s, true));
    for p in C16_PREFIXES {
        total += for_all_strings(&sigma, n_pref, &|s| check(&format!("{p}{s}"), true));
    }
    // characters whose code point ends in the byte of a special ASCII character (0x00, '#', '$', '+', '/'):
    // a validator that narrows `char` to `u8` confuses them with the special character
    let sigma_x = ['/', '+', '#', '$', 'a', '\0', 'é', 'Ā', 'ģ', 'Ĥ', 'ī', 'į', '😀'];
    let n_x = if ctx.thorough() { 5 } else { 4 };
    total += for_all_strings(&sigma_x, n_x, &|s| check(s, true));
    total += for_all_strings(&sigma_x, n_x - 1, &|s| check(&format!("$share/{s}"), true));
    let n_tok = if ctx.thorough() { 6 } else { 5 };
    total += for_all_token_strings(&FILTER_TOKENS, n_tok, &|s| check(s, true));
    let muts = mutated_share_prefixes();
    for p in &muts {
        total += for_all_strings(&sigma, n_mut, &|s| check(&format!("{p}{s}"), true));
    }
    // long strings
    let mut cores = Vec::new();
    for_all_strings_seq(&sigma, 3, &mut |s| cores.push(s.to_string()));
    let cores: Vec<String> = if ctx.thorough() { cores } else { cores.into_iter().filter(|c| c.chars().count() <= 2).collect() };
    let long = long_strings(&cores, true);
    long.par_iter().for_each(|s| check(s, true));
    total += long.len() as u64;
    ctx.count("strings", total);
    ctx.count("long_strings", long.len() as u64);
    ctx.count("mutated_prefixes", muts.len() as u64);
    ctx.state(total);
    ctx.trans(total * 7);
    ctx.trace(total);
    ctx.nontriv(accepted.load(Relaxed));
    for s in ["a/+/b", "+x", "$share/g/#", "$share//a", "a/#/b"] {
        ctx.sample(json!({"string": s, "reference": format!("{:?}", text::filter(s)), "is_invalid": TopicFilter::is_invalid(s).0}));
    }
}

pub fn for_all_strings_seq(alpha: &[char], max: usize, f: &mut dyn FnMut(&str)) {
    let k = alpha.len() as u64;
    for len in 0..=max {
        for idx in 0..k.pow(len as u32) {
            let mut s = String::new();
            let mut x = idx;
            for _ in 0..len {
                s.push(alpha[(x % k) as usize]);
                x /= k;
            }
            f(&s);
        }
    }
}

fn class_of(s: &str) -> String {
    // a coarse, stable key: shape of the string with runs collapsed
    let mut k = String::new();
    let mut last = '\u{1}';
    for c in s.chars().take(200) {
        let c = match c {
            '/' | '+' | '#' | '$' | '\0' => c,
            c if c.is_ascii() => 'a',
            _ => 'é',
        };
        if c != last || c != 'a' && c != 'é' {
            k.push(if c == '\0' { '0' } else { c });
        }
        last = c;
        if k.len() > 24 {
            break;
        }
    }
    if s.len() > 65535 {
        k.push_str(":>65535");
    } else if s.len() > 1000 {
        k.push_str(":long");
    }
    k
}

// ---------------------------------------------------------------------------------------------
// C17

fn hash_of<T: Hash>(t: &T) -> u64 {
    let mut h = DefaultHasher::new();
    t.hash(&mut h);
    h.finish()
}

pub fn c17_one(s: &str) -> Option<String> {
    let expect = text::filter(s);
    if expect == Filter::Invalid {
        return None;
    }
    let r = guard(|| -> Option<String> {
        let f = match TopicFilter::try_from(s.to_string()) {
            Ok(f) => f,
            Err(_) => return None, // acceptance is C16's business
        };
        let info = f.shared_info();
        let g = f.shared_group_name();
        let sf = f.shared_filter();
        match &expect {
            Filter::Plain => {
                if f.is_shared() || info.is_some() || g.is_some() || sf.is_some() {
                    return Some(format!("plain filter {} reports a share: {:?}", shape(s), info.map(|(a, b)| (shape(a), shape(b)))));
                }
            }
            Filter::Shared { group, filter } => {
                if !f.is_shared() || info != Some((group, filter)) || g != Some(*group) || sf != Some(*filter) {
                    return Some(format!(
                        "shared filter {}: accessors give is_shared={} name={:?} filter={:?}, the text splits into name={} filter={}",
                        shape(s),
                        f.is_shared(),
                        g.map(shape),
                        sf.map(shape),
                        shape(group),
                        shape(filter)
                    ));
                }
            }
            Filter::Invalid => unreachable!(),
        }
        if f.to_string() != s || &*f != s {
            return Some(format!("filter {} converts back to different text", shape(s)));
        }
        if f.is_sys() != s.starts_with("$SYS/") {
            return Some(format!("filter {} is_sys = {}", shape(s), f.is_sys()));
        }
        // an independently constructed equal text: equal, same order, same hash
        let f2 = TopicFilter::try_from(String::from_utf8(s.as_bytes().to_vec()).unwrap()).ok()?;
        if f != f2 || f.cmp(&f2) != std::cmp::Ordering::Equal || hash_of(&f) != hash_of(&f2) || f.partial_cmp(&f2) != Some(std::cmp::Ordering::Equal) {
            return Some(format!("two filters built from the text {} are not equal / hash differently", shape(s)));
        }
        let f3 = f.clone();
        if f3 != f || hash_of(&f3) != hash_of(&f) {
            return Some(format!("clone of filter {} differs", shape(s)));
        }
        None
    });
    match r {
        Ok(x) => x,
        Err(m) => Some(format!("accessor panics on {}: {m}", shape(s))),
    }
}

fn c17_pair(a: &TopicFilter, b: &TopicFilter) -> Option<String> {
    let (sa, sb): (&str, &str) = (a, b);
    let r = guard(|| {
        let eq = a == b;
        let c = a.cmp(b);
        let pc = a.partial_cmp(b);
        let he = hash_of(a) == hash_of(b);
        (eq, c, pc, he)
    });
    match r {
        Err(m) => Some(format!("comparison panics: {m}")),
        Ok((eq, c, pc, he)) => {
            if eq != (sa == sb) {
                Some(format!("{:?} == {:?} is {eq}", shape(sa), shape(sb)))
            } else if c != sa.cmp(sb) || pc != Some(sa.cmp(sb)) {
                Some(format!("{:?} cmp {:?} = {c:?}/{pc:?}, texts compare {:?}", shape(sa), shape(sb), sa.cmp(sb)))
            } else if sa == sb && !he {
                Some(format!("equal texts {:?} hash differently", shape(sa)))
            } else {
                None
            }
        }
    }
}

pub fn c17(ctx: &Ctx) {
    // multi-byte characters of every UTF-8 width in the share name and in the filter
    let sigma = ['/', '+', '#', 'a', 'é', '€', '😀'];
    let (n_plain, n_share) = if ctx.thorough() { (8, 7) } else { (7, 6) };
    ctx.set_rule(&format!(
        "every valid filter among all strings of length <= {n_plain} over {{'/','+','#','a','é','€','😀'}} alone and of length <= {n_share} behind '$share/', plus all concatenations of <= {n_tok} tokens from {:?} (protocol words as share names and levels), plus share names and filters of boundary lengths (247..=257, 65,520..): accessors against the unique split of the text, text round trip, equality/order/hash of independently built equal texts; all ordered pairs of a filter subset for ==, cmp, partial_cmp, hash; non-trivial = shared filters",
        FILTER_TOKENS, n_tok = if ctx.thorough() { 6 } else { 5 }
    ));
    let shared = AtomicU64::new(0);
    let valid = AtomicU64::new(0);
    let check = |s: &str| {
        match text::filter(s) {
            Filter::Invalid => return,
            Filter::Shared { .. } => {
                shared.fetch_add(1, Relaxed);
            }
            Filter::Plain => {}
        }
        valid.fetch_add(1, Relaxed);
        ctx.eval(1);
        if let Some(what) = c17_one(s) {
            ctx.violation(format!("C17:accessors:{}", class_of(s)), what, json!({"kind":"filter-accessors","s":s}));
        }
    };
    let mut total = for_all_strings(&sigma, n_plain, &|s| check(s));
    total += for_all_strings(&sigma, n_share, &|s| check(&format!("$share/{s}")));
    total += for_all_strings(&sigma, n_share - 1, &|s| check(&format!("$share/g/{s}")));
    total += for_all_strings(&sigma, n_share - 2, &|s| check(&format!("$share/😀é/{s}")));
    // token-level words: "$share" / "$SYS" as share name, as a level, repeated, truncated
    let n_tok = if ctx.thorough() { 6 } else { 5 };
    total += for_all_token_strings(&FILTER_TOKENS, n_tok, &|s| check(s));
    // boundary lengths of the share name and of the whole filter
    let mut long: Vec<String> = Vec::new();
    for n in (120..=135).chain(247..=262).chain([510, 511, 512, 513, 1023, 1024, 1025, 4095, 4096, 16383, 16384, 32767, 32768, 65520, 65524, 65525, 65526]) {
        for tail in ["a", "/", "#", "+/#", "é/b"] {
            if 7 + n + 1 + tail.len() <= 65535 {
                long.push(format!("$share/{}/{}", "g".repeat(n), tail));
            }
            if n >= 2 && 7 + n + 1 + tail.len() <= 65535 {
                long.push(format!("$share/{}{}/{}", "é".repeat(n / 2), if n % 2 == 1 { "g" } else { "" }, tail));
            }
            if 10 + n + tail.len() <= 65535 {
                long.push(format!("$share/g/{}/{}", "a".repeat(n), tail));
            }
        }
    }
    long.retain(|s| s.len() <= 65535);
    long.par_iter().for_each(|s| check(s));
    total += long.len() as u64;
    // pairs
    let mut subset: Vec<String> = Vec::new();
    for_all_strings_seq(&['/', '+', '#', 'a', 'é'], 4, &mut |s| {
        if text::filter_valid(s) {
            subset.push(s.to_string());
        }
        let sh = format!("$share/g/{s}");
        if text::filter_valid(&sh) {
            subset.push(sh);
        }
        let sh = format!("$share/é{s}/a");
        if text::filter_valid(&sh) {
            subset.push(sh);
        }
    });
    // share names that are prefixes of one another, continued by characters that sort below and above '/'
    let mut names: Vec<String> = Vec::new();
    for_all_strings_seq(&['a', '-', '!', ' ', '0', 'é'], 3, &mut |s| {
        if !s.is_empty() {
            names.push(s.to_string());
        }
    });
    let mut related: Vec<String> = Vec::new();
    for n in &names {
        for tail in ["t", "/", "+/#", "-"] {
            related.push(format!("$share/{n}/{tail}"));
        }
        related.push(format!("{n}/t"));
        related.push(format!("$share{n}/t"));
    }
    related.retain(|s| text::filter_valid(s));
    let limit = if ctx.thorough() { 4000 } else { 1600 };
    // deterministic thinning that keeps neighbours (prefix-related strings) together
    if subset.len() > limit {
        let step = subset.len() as f64 / limit as f64;
        subset = (0..limit).map(|i| subset[(i as f64 * step) as usize].clone()).collect();
    }
    if !ctx.thorough() {
        related = related.into_iter().step_by(2).collect();
    }
    subset.extend(related);
    let filters: Vec<TopicFilter> = subset.iter().filter_map(|s| guard(|| TopicFilter::try_from(s.clone()).ok()).ok().flatten()).collect();
    let n = filters.len();
    (0..n).into_par_iter().for_each(|i| {
        for j in 0..n {
            if let Some(what) = c17_pair(&filters[i], &filters[j]) {
                ctx.violation("C17:compare".into(), what, json!({"kind":"filter-pair","a":&*filters[i],"b":&*filters[j]}));
            }
        }
        ctx.eval(n as u64);
    });
    ctx.count("strings_enumerated", total);
    ctx.count("valid_filters_checked", valid.load(Relaxed));
    ctx.count("pairs", (n * n) as u64);
    ctx.state(valid.load(Relaxed));
    ctx.trans(valid.load(Relaxed) * 10 + (n * n) as u64 * 4);
    ctx.trace(valid.load(Relaxed) + (n * n) as u64);
    ctx.nontriv(shared.load(Relaxed));
    for s in ["$share/g/a", "$share/é/+/#", "$share/😀a/x", "a/b"] {
        let f = TopicFilter::try_from(s.to_string()).unwrap();
        ctx.sample(json!({"filter": s, "shared_info": format!("{:?}", f.shared_info())}));
    }
}

// ---------------------------------------------------------------------------------------------
// C18

fn publish_frame<F: Fam>(s: &str, door: u8) -> Option<Vec<u8>> {
    let v5 = F::FAMILY == mqtt_ref::Family::V5;
    let level = if v5 { 5 } else { 4 };
    let ast = match door {
        0 => Ast::Publish { dup: false, qos: 0, retain: false, topic: s.to_string(), pid: None, props: vec![], payload: vec![1] },
        1 => Ast::Connect {
            level,
            clean: true,
            keep_alive: 1,
            props: vec![],
            client_id: "c".into(),
            will: Some(Will { qos: 0, retain: false, props: vec![], topic: s.to_string(), payload: vec![] }),
            username: None,
            password: None,
        },
        2 if v5 => Ast::Publish {
            dup: false,
            qos: 0,
            retain: false,
            topic: "t".into(),
            pid: None,
            props: vec![Prop { id: 0x08, val: PVal::Str(s.to_string()) }],
            payload: vec![],
        },
        3 if v5 => Ast::Connect {
            level,
            clean: true,
            keep_alive: 1,
            props: vec![],
            client_id: "c".into(),
            will: Some(Will { qos: 0, retain: false, props: vec![Prop { id: 0x08, val: PVal::Str(s.to_string()) }], topic: "t".into(), payload: vec![] }),
            username: None,
            password: None,
        },
        _ => return None,
    };
    enc::encode_bytes(F::FAMILY, &ast)
}

fn c18_doors<F: Fam>(s: &str, valid: bool) -> Option<String> {
    for door in 0..4u8 {
        let frame = match publish_frame::<F>(s, door) {
            Some(f) => f,
            None => continue,
        };
        let name = ["PUBLISH topic", "will topic", "PUBLISH response topic", "will response topic"][door as usize];
        match guard(|| F::decode(&frame)) {
            Err(m) => return Some(format!("{} {name} {} panics: {m}", F::NAME, shape(s))),
            Ok(Ok(Some(_))) if valid => {}
            Ok(Err(e)) if !valid => {
                let expect = if door >= 2 { F::expect_err(&mqtt_ref::dec::Viol::BadResponseTopic) } else { Some(F::common(mqtt_proto::Error::InvalidTopicName(s.to_string()))) };
                if Some(&e) != expect.as_ref() {
                    return Some(format!("{} {name} {} rejected with {e:?}, expected {expect:?}", F::NAME, shape(s)));
                }
            }
            Ok(other) => {
                return Some(format!(
                    "{} {name} {}: decoder says {}, the rule says {}",
                    F::NAME,
                    shape(s),
                    match other {
                        Ok(Some(_)) => "accepted".to_string(),
                        Ok(None) => "incomplete".to_string(),
                        Err(e) => format!("rejected ({e:?})"),
                    },
                    if valid { "valid" } else { "invalid" }
                ))
            }
        }
    }
    None
}

pub fn c18_one(s: &str, doors: bool) -> Option<String> {
    let valid = text::topic_name_valid(s);
    match guard(|| TopicName::is_invalid(s)) {
        Err(m) => return Some(format!("TopicName::is_invalid({}) panics: {m}", shape(s))),
        Ok(inv) => {
            if inv == valid {
                return Some(format!("TopicName::is_invalid({}) = {inv}, rule says {}", shape(s), if valid { "valid" } else { "invalid" }));
            }
        }
    }
    match guard(|| TopicName::try_from(s.to_string())) {
        Err(m) => return Some(format!("TopicName::try_from({}) panics: {m}", shape(s))),
        Ok(Ok(t)) => {
            if !valid {
                return Some(format!("TopicName::try_from({}) accepted an invalid name", shape(s)));
            }
            if &*t != s || t.to_string() != s {
                return Some(format!("TopicName {} reads back differently", shape(s)));
            }
            match guard(|| (t.is_shared(), t.is_sys())) {
                Err(m) => return Some(format!("TopicName {}: is_shared / is_sys panics: {m}", shape(s))),
                Ok((sh, sy)) => {
                    if sh != s.starts_with("$share/") {
                        return Some(format!("TopicName {} is_shared = {sh}", shape(s)));
                    }
                    if sy != s.starts_with("$SYS/") {
                        return Some(format!("TopicName {} is_sys = {sy}", shape(s)));
                    }
                }
            }
        }
        Ok(Err(e)) => {
            if valid {
                return Some(format!("TopicName::try_from({}) rejected a valid name: {e:?}", shape(s)));
            }
            if e != mqtt_proto::Error::InvalidTopicName(s.to_string()) {
                return Some(format!("TopicName::try_from({}) error {e:?}", shape(s)));
            }
        }
    }
    if doors && s.len() <= 65535 {
        if let Some(w) = c18_doors::<V3>(s, valid) {
            return Some(w);
        }
        if let Some(w) = c18_doors::<V5>(s, valid) {
            return Some(w);
        }
    }
    None
}

pub fn c18(ctx: &Ctx) {
    let sigma = ['/', '+', '#', '$', 'a', 'S', '\0', 'é'];
    let (n_plain, n_pref) = if ctx.thorough() { (8, 6) } else { (7, 5) };
    let prefixes = ["$share/", "$share", "$SYS/", "$SYS", "$sys/", "$Share/", "$SYS//", "$shar", "$SY"];
    ctx.set_rule(&format!(
        "all strings of length <= {n_plain} over {{'/','+','#','$','a','S',NUL,'é'}} alone and of length <= {n_pref} behind {:?}; all concatenations of <= 5 (thorough 6) tokens from $share, $share/, /, a, $, $SYS, $SYS/, é, +, #, space, $SY, sys; padded long strings around 65,535 bytes; through is_invalid, try_from, PUBLISH topic, will topic and response-topic properties of both families; oracle: valid iff <= 65,535 bytes and no '+', '#', NUL; non-trivial = valid names",
        prefixes
    ));
    let accepted = AtomicU64::new(0);
    let check = |s: &str, doors: bool| {
        ctx.eval(1);
        if text::topic_name_valid(s) {
            accepted.fetch_add(1, Relaxed);
        }
        if let Some(what) = c18_one(s, doors) {
            ctx.violation(format!("C18:{}", class_of(s)), what, json!({"kind":"topic-name","s":s}));
        }
    };
    let mut total = for_all_strings(&sigma, n_plain, &|s| check(s, true));
    for p in prefixes {
        total += for_all_strings(&sigma, n_pref, &|s| check(&format!("{p}{s}"), true));
    }
    let sigma_x = ['/', '+', '#', '$', 'a', 'S', '\0', 'é', 'Ā', 'ģ', 'Ĥ', 'ī', 'į', '一', '😀'];
    let n_x = if ctx.thorough() { 5 } else { 4 };
    total += for_all_strings(&sigma_x, n_x, &|s| check(s, true));
    for p in ["$SYS", "$share", "$SY", "$shar", "aaaa", "aaaaaa"] {
        total += for_all_strings(&sigma_x, 2, &|s| check(&format!("{p}{s}"), true));
    }
    let n_tok = if ctx.thorough() { 6 } else { 5 };
    total += for_all_token_strings(&["$share", "$share/", "/", "a", "$", "$SYS", "$SYS/", "é", "+", "#", " ", "$SY", "sys"], n_tok, &|s| check(s, true));
    let mut cores = Vec::new();
    for_all_strings_seq(&sigma, 2, &mut |s| cores.push(s.to_string()));
    cores.push("$SYS/".into());
    cores.push("$share/".into());
    let long = long_strings(&cores, false);
    long.par_iter().for_each(|s| check(s, true));
    total += long.len() as u64;
    ctx.count("strings", total);
    ctx.count("long_strings", long.len() as u64);
    ctx.state(total);
    ctx.trans(total * 8);
    ctx.trace(total);
    ctx.nontriv(accepted.load(Relaxed));
    for s in ["a/b", "a/+", "$SYS/x", "$share", ""] {
        ctx.sample(json!({"string": s, "valid": text::topic_name_valid(s), "is_invalid": TopicName::is_invalid(s)}));
    }
}

pub fn c17_pair_str(a: &str, b: &str) -> Option<String> {
    let fa = TopicFilter::try_from(a.to_string()).ok()?;
    let fb = TopicFilter::try_from(b.to_string()).ok()?;
    c17_pair(&fa, &fb)
}
