//! `U_field`: the field-VALUE universe (DESIGN.md 0.8). `U_val` varies presence, flags, codes and a
//! handful of atoms; `U_size` varies lengths. This universe varies the *content* of every scalar,
//! text and binary slot of every packet type:
//!
//! * (E) each-slot: a rich base packet of every type (every optional field and every v5 property
//!   present) with ONE slot at a time set to every atom of that slot's kind - walking-one /
//!   walking-zero / single-byte bit patterns for integers, a catalogue of special code points and
//!   look-alike strings for text, all-byte-value blobs for binary data;
//! * (F) slot pairs (thorough): every unordered pair of slots x a short atom list per kind;
//! * (H) relations: every pair of compatible slots holding equal / prefix-related content (see `relations`);
//! * (G') user-property lists with repeated names (all 3-lists over three atoms with two equal names, all 4-lists
//!   over two names) alone in the property set of every owner;
//! * (G) flag/code products: every flag combination (CONNECT flag group, PUBLISH dup/qos/retain)
//!   and every reason code behind every single-property set.
//!
//! Every product is complete - nothing is sampled. Values the reference decoder does not accept
//! (e.g. a '+' put into a topic name) are dropped by `u_field`, using the reference model only.

use crate::ast::ptype::*;
use crate::ast::*;
use crate::dec::{self, Verdict};
use crate::enc;
use crate::tables::{self, PType};
use std::collections::HashSet;

#[derive(Clone, Copy, Debug, PartialEq, Eq)]
pub enum Kind {
    U16,
    U32,
    VarInt,
    Text,
    TopicName,
    Filter,
    Bin,
    /// payload that must be UTF-8 (payload-format indicator 1 in the same packet)
    Utf8Bin,
}

pub enum Slot<'a> {
    U16(&'a mut u16),
    U32(&'a mut u32),
    Str(&'a mut String),
    Bin(&'a mut Vec<u8>),
}

#[derive(Clone, Debug)]
pub enum Atom {
    N(u32),
    S(String),
    B(Vec<u8>),
}

fn visit_props<'a>(owner: u8, props: &'a mut Props, utf8: &mut bool, f: &mut dyn FnMut(Kind, Slot<'a>)) {
    let _ = owner;
    for p in props.iter_mut() {
        let id = p.id;
        if id == tables::PAYLOAD_FORMAT_INDICATOR && p.val == PVal::Byte(1) {
            *utf8 = true;
        }
        match &mut p.val {
            PVal::Byte(_) => {}
            PVal::U16(v) => f(Kind::U16, Slot::U16(v)),
            PVal::U32(v) => f(Kind::U32, Slot::U32(v)),
            PVal::VarInt(v) => f(Kind::VarInt, Slot::U32(v)),
            PVal::Str(s) => f(if id == tables::RESPONSE_TOPIC { Kind::TopicName } else { Kind::Text }, Slot::Str(s)),
            PVal::Bin(b) => f(Kind::Bin, Slot::Bin(b)),
            PVal::Pair(k, v) => {
                f(Kind::Text, Slot::Str(k));
                f(Kind::Text, Slot::Str(v));
            }
        }
    }
}

/// Calls `f` once per value slot of the packet, in wire order.
pub fn visit<'a>(ast: &'a mut Ast, f: &mut dyn FnMut(Kind, Slot<'a>)) {
    match ast {
        Ast::Connect { keep_alive, props, client_id, will, username, password, .. } => {
            f(Kind::U16, Slot::U16(keep_alive));
            let mut u = false;
            visit_props(CONNECT, props, &mut u, f);
            f(Kind::Text, Slot::Str(client_id));
            if let Some(w) = will {
                let mut wu = false;
                visit_props(WILL, &mut w.props, &mut wu, f);
                f(Kind::TopicName, Slot::Str(&mut w.topic));
                f(if wu { Kind::Utf8Bin } else { Kind::Bin }, Slot::Bin(&mut w.payload));
            }
            if let Some(s) = username {
                f(Kind::Text, Slot::Str(s));
            }
            if let Some(b) = password {
                f(Kind::Bin, Slot::Bin(b));
            }
        }
        Ast::Connack { props, .. } | Ast::Disconnect { props, .. } | Ast::Auth { props, .. } => {
            let mut u = false;
            visit_props(0xFF, props, &mut u, f);
        }
        Ast::Publish { topic, pid, props, payload, .. } => {
            f(Kind::TopicName, Slot::Str(topic));
            if let Some(p) = pid {
                f(Kind::U16, Slot::U16(p));
            }
            let mut u = false;
            visit_props(PUBLISH, props, &mut u, f);
            f(if u { Kind::Utf8Bin } else { Kind::Bin }, Slot::Bin(payload));
        }
        Ast::Ack { pid, props, .. } | Ast::Suback { pid, props, .. } | Ast::Unsuback { pid, props, .. } => {
            f(Kind::U16, Slot::U16(pid));
            let mut u = false;
            visit_props(0xFF, props, &mut u, f);
        }
        Ast::Subscribe { pid, props, topics } => {
            f(Kind::U16, Slot::U16(pid));
            let mut u = false;
            visit_props(SUBSCRIBE, props, &mut u, f);
            for (t, _) in topics.iter_mut() {
                f(Kind::Filter, Slot::Str(t));
            }
        }
        Ast::Unsubscribe { pid, props, topics } => {
            f(Kind::U16, Slot::U16(pid));
            let mut u = false;
            visit_props(UNSUBSCRIBE, props, &mut u, f);
            for t in topics.iter_mut() {
                f(Kind::Filter, Slot::Str(t));
            }
        }
        Ast::Pingreq | Ast::Pingresp => {}
    }
}

pub fn kinds(ast: &Ast) -> Vec<Kind> {
    let mut a = ast.clone();
    let mut out = Vec::new();
    visit(&mut a, &mut |k, _| out.push(k));
    out
}

/// a copy of `ast` with slot `i` set to `atom`
pub fn with_slot(ast: &Ast, i: usize, atom: &Atom) -> Ast {
    let mut a = ast.clone();
    let mut n = 0usize;
    visit(&mut a, &mut |_, s| {
        if n == i {
            match (s, atom) {
                (Slot::U16(v), Atom::N(x)) => *v = *x as u16,
                (Slot::U32(v), Atom::N(x)) => *v = *x,
                (Slot::Str(v), Atom::S(x)) => *v = x.clone(),
                (Slot::Bin(v), Atom::B(x)) => *v = x.clone(),
                (Slot::Bin(v), Atom::S(x)) => *v = x.as_bytes().to_vec(),
                _ => panic!("atom does not fit the slot"),
            }
        }
        n += 1;
    });
    a
}

// ---------------------------------------------------------------------------------------------
// atoms

fn bit_patterns(bits: u32) -> Vec<u32> {
    let mask: u32 = if bits == 32 { u32::MAX } else { (1u32 << bits) - 1 };
    let mut v: Vec<u32> = Vec::new();
    for i in 0..bits {
        v.push(1u32 << i); // walking one
        v.push(mask & !(1u32 << i)); // walking zero
    }
    let bytes = (bits + 7) / 8;
    for i in 0..bytes {
        for b in [0x7Fu32, 0x80, 0xFF, 0x01] {
            v.push((b << (8 * i)) & mask); // one byte set, the others zero
            v.push((mask & !(0xFFu32 << (8 * i))) | ((b << (8 * i)) & mask)); // one byte set, the others 0xFF
        }
    }
    for x in [0u32, mask, 0x0102, 0x0081, 0x8080_8080, 0x7F7F_7F7F, 0x0102_0304, 0x0403_0201, 0xFFFF_0000, 0x0000_FFFF, 0x00FF_00FF, 0xFF00_FF00, 0xDEAD_BEEF] {
        v.push(x & mask);
    }
    let mut seen = HashSet::new();
    v.retain(|x| seen.insert(*x));
    v
}

pub fn u16_atoms() -> Vec<u32> {
    bit_patterns(16)
}
pub fn u32_atoms() -> Vec<u32> {
    bit_patterns(32)
}
/// values of a variable byte integer: every bit alone, every 7-bit group alone with 0x01/0x40/0x7F,
/// and both neighbours of every width boundary
pub fn varint_atoms() -> Vec<u32> {
    let mut v: Vec<u32> = Vec::new();
    for i in 0..28 {
        v.push(1 << i);
        v.push(0x0FFF_FFFF & !(1u32 << i));
    }
    for g in 0..4 {
        for b in [0x01u32, 0x40, 0x7F] {
            v.push(b << (7 * g));
            v.push((0x0FFF_FFFF & !(0x7Fu32 << (7 * g))) | (b << (7 * g)));
        }
    }
    for b in [127u32, 16_383, 2_097_151] {
        v.extend([b - 1, b, b + 1, b + 2]);
    }
    v.extend([0, 1, 2, 255, 256, 65_535, 65_536, 268_435_454, 268_435_455]);
    let mut seen = HashSet::new();
    v.retain(|x| seen.insert(*x));
    v
}

/// Text atoms: white space, byte-order mark, control and non-characters, the first and last code
/// point of every UTF-8 width, look-alikes of protocol tokens, case pairs, quoting characters.
pub fn text_atoms() -> Vec<String> {
    let mut v: Vec<String> = [
        "", " ", " a", "a ", "  ", "\t", "\n", "\r\n", "a\tb", "\u{FEFF}", "\u{FEFF}a", "a\u{FEFF}", "\u{1}", "\u{1F}", "\u{7F}",
        "\u{80}", "\u{9F}", "\u{A0}", "\u{7FF}", "\u{800}", "\u{D7FF}", "\u{E000}", "\u{FDD0}", "\u{FFFD}", "\u{FFFE}", "\u{FFFF}",
        "\u{10000}", "\u{1FFFE}", "\u{10FFFF}", "a\u{10FFFF}b", "A", "a", "Aa", "aA", "Z", "z", "MQTT", "mqtt", "MQIsdp", "+", "#",
        "$", "/", "//", "a/b", "a+b", "a#", "+/#", "$share/g/a", "$SYS", "$share", "e\u{301}", "é", "ß", "İ", "ǆ", "\u{2028}",
        "\u{200B}", "%", "%00", "\\", "\\0", "\"", "'", "0", "null", "true", "\u{0}", "a\u{0}b", "\u{0}a", "a\u{0}", "😀", "€😀",
        "\u{7F}\u{80}", "aé€😀", "😀€éa",
    ]
    .iter()
    .map(|s| s.to_string())
    .collect();
    // the values the OTHER fields of the full packets hold: equal content in two different fields
    for b in ["c", "w", "u", "s", "k", "v", "t", "k2", "p"] {
        v.push(b.to_string());
    }
    // every printable ASCII character in one string, and every Latin-1 letter in one string
    v.push((0x20u8..0x7F).map(|b| b as char).collect());
    v.push((0xA0u32..0x100).filter_map(char::from_u32).collect());
    v
}

/// Binary atoms: every byte value (ascending and descending), single bytes with the top bit,
/// ill-formed UTF-8, byte-order mark, bytes that look like a length prefix or like a packet.
pub fn bin_atoms() -> Vec<Vec<u8>> {
    vec![
        vec![],
        vec![0x00],
        vec![0x7F],
        vec![0x80],
        vec![0xFF],
        vec![0x00, 0x00],
        vec![0x00, 0x04],
        vec![0xFF, 0xFF],
        (0u8..=255).collect(),
        (0u8..=255).rev().collect(),
        vec![0xC3],
        vec![0xC0, 0x80],
        vec![0xED, 0xA0, 0x80],
        vec![0xF4, 0x90, 0x80, 0x80],
        vec![0xEF, 0xBB, 0xBF],
        vec![0xEF, 0xBB, 0xBF, b'a'],
        b"MQTT".to_vec(),
        vec![0x10, 0x00],
        vec![0xC0, 0x00],
        vec![0xE0, 0x00],
        vec![0x26, 0x00, 0x01, b'a', 0x00, 0x01, b'b'],
        "é".as_bytes().to_vec(),
        "a\u{0}b".as_bytes().to_vec(),
        // equal to what other fields of the full packets hold
        b"p".to_vec(),
        b"u".to_vec(),
    ]
}

pub fn atoms_of(k: Kind) -> Vec<Atom> {
    match k {
        Kind::U16 => u16_atoms().into_iter().map(Atom::N).collect(),
        Kind::U32 => u32_atoms().into_iter().map(Atom::N).collect(),
        Kind::VarInt => varint_atoms().into_iter().map(Atom::N).collect(),
        // topic names / filters share the text catalogue; the reference grammar filters what is not allowed
        Kind::Text | Kind::TopicName => text_atoms().into_iter().map(Atom::S).collect(),
        Kind::Filter => {
            let mut v = text_atoms();
            for s in ["+/+", "/#", "a/#", "+/a/+", "/+/", "$share/g/#", "$share/g//", "$share/ /a", "$SYS/#", "$share/g/$SYS/#", "$sharex/a", "$share/é/+/#", "$share/$share/a", "+/$share/g/a", "A/+", "a/ /b", " /#"] {
                v.push(s.to_string());
            }
            v.into_iter().map(Atom::S).collect()
        }
        Kind::Bin => bin_atoms().into_iter().map(Atom::B).collect(),
        Kind::Utf8Bin => text_atoms().into_iter().map(Atom::S).collect(),
    }
}

/// the short list used for slot pairs (F)
pub fn pair_atoms_of(k: Kind) -> Vec<Atom> {
    match k {
        Kind::U16 => [0u32, 0x0080, 0x8000, 0xFF01].iter().map(|x| Atom::N(*x)).collect(),
        Kind::U32 => [0u32, 0x0000_0080, 0x8000_0000, 0x00FF_8001].iter().map(|x| Atom::N(*x)).collect(),
        Kind::VarInt => [1u32, 128, 0x0020_0080, 268_435_455].iter().map(|x| Atom::N(*x)).collect(),
        Kind::Text | Kind::TopicName | Kind::Utf8Bin => ["", " a ", "\u{FEFF}é", "😀"].iter().map(|s| Atom::S(s.to_string())).collect(),
        Kind::Filter => ["#", "+/ ", "$share/g/\u{FEFF}", "😀/+"].iter().map(|s| Atom::S(s.to_string())).collect(),
        Kind::Bin => vec![Atom::B(vec![]), Atom::B(vec![0x00]), Atom::B(vec![0xFF, 0x80, 0x00]), Atom::B("é".as_bytes().to_vec())],
    }
}

// ---------------------------------------------------------------------------------------------
// bases

fn base_val(def: &tables::PropDef, pfi: u8) -> PVal {
    match def.typ {
        PType::Byte => PVal::Byte(if def.id == tables::PAYLOAD_FORMAT_INDICATOR { pfi } else { 1 }),
        PType::U16 => PVal::U16(0x0102),
        PType::U32 => PVal::U32(0x0102_0304),
        PType::VarInt => PVal::VarInt(0x0081),
        PType::Str => PVal::Str("s".into()),
        PType::Bin => PVal::Bin(vec![0xFF, 0x00]),
        PType::Pair => PVal::Pair("k".into(), "v".into()),
    }
}

/// every property of the owner once (user property twice), canonical order
pub fn full_props(owner: u8, pfi: u8) -> Props {
    let mut p: Props = tables::props_of(owner).into_iter().filter(|d| d.id != tables::USER_PROPERTY).map(|d| Prop { id: d.id, val: base_val(d, pfi) }).collect();
    p.push(Prop { id: tables::USER_PROPERTY, val: PVal::Pair("k".into(), "v".into()) });
    p.push(Prop { id: tables::USER_PROPERTY, val: PVal::Pair("k2".into(), "".into()) });
    p
}

/// single-property sets of the owner (each property alone; one user property alone)
pub fn single_props(owner: u8) -> Vec<Props> {
    tables::props_of(owner).into_iter().map(|d| vec![Prop { id: d.id, val: base_val(d, 0) }]).collect()
}

/// Rich base packets: every optional field present; v5 with the full property set (payload-format 0 and 1).
pub fn bases(family: Family) -> Vec<Ast> {
    let v5 = family == Family::V5;
    let mut out = Vec::new();
    let pfis: Vec<u8> = if v5 { vec![0, 1] } else { vec![0] };
    let fp = |owner: u8, pfi: u8| -> Props { if v5 { full_props(owner, pfi) } else { vec![] } };
    let levels: Vec<u8> = if v5 { vec![5] } else { vec![3, 4] };
    for &pfi in &pfis {
        for &level in &levels {
            out.push(Ast::Connect {
                level,
                clean: true,
                keep_alive: 0x0102,
                props: fp(CONNECT, 0),
                client_id: "c".into(),
                will: Some(Will { qos: 1, retain: true, props: fp(WILL, pfi), topic: "w".into(), payload: b"p".to_vec() }),
                username: Some("u".into()),
                password: Some(vec![0xFF, 0x00]),
            });
        }
        for (qos, pid) in [(0u8, None), (2u8, Some(0x0102u16))] {
            out.push(Ast::Publish { dup: qos == 2, qos, retain: true, topic: "t".into(), pid, props: fp(PUBLISH, pfi), payload: b"p".to_vec() });
        }
    }
    out.push(Ast::Connack { session_present: true, code: 0, props: fp(CONNACK, 0) });
    for t in [PUBACK, PUBREC, PUBREL, PUBCOMP] {
        let code = if v5 { *tables::reason_codes(t).last().unwrap() } else { 0 };
        out.push(Ast::Ack { typ: t, pid: 0x0102, code, props: fp(t, 0) });
        if v5 {
            out.push(Ast::Ack { typ: t, pid: 0x0102, code: 0, props: fp(t, 0) });
        }
    }
    let f3: Vec<String> = vec!["a".into(), "b/+".into(), "$share/g/c".into()];
    out.push(Ast::Subscribe { pid: 0x0102, props: fp(SUBSCRIBE, 0), topics: f3.iter().cloned().zip([0u8, 1, 2]).collect() });
    out.push(Ast::Unsubscribe { pid: 0x0102, props: fp(UNSUBSCRIBE, 0), topics: f3.clone() });
    out.push(Ast::Suback { pid: 0x0102, props: fp(SUBACK, 0), codes: if v5 { vec![0, 0x80, 2] } else { vec![0, 0x80, 2] } });
    if v5 {
        out.push(Ast::Unsuback { pid: 0x0102, props: fp(UNSUBACK, 0), codes: vec![0, 0x11, 0x80] });
        out.push(Ast::Disconnect { code: 0x04, props: fp(DISCONNECT, 0) });
        out.push(Ast::Disconnect { code: 0x00, props: fp(DISCONNECT, 0) });
        out.push(Ast::Auth { code: 0x18, props: fp(AUTH, 0) });
        out.push(Ast::Auth { code: 0x00, props: fp(AUTH, 0) });
    } else {
        out.push(Ast::Ack { typ: UNSUBACK, pid: 0x0102, code: 0, props: vec![] });
    }
    out
}

fn flag_products(family: Family) -> Vec<Ast> {
    let v5 = family == Family::V5;
    let mut out = Vec::new();
    let levels: Vec<u8> = if v5 { vec![5] } else { vec![3, 4] };
    let mut cps: Vec<Props> = vec![vec![]];
    let mut wps: Vec<Props> = vec![vec![]];
    let mut pps: Vec<Props> = vec![vec![]];
    if v5 {
        cps.extend(single_props(CONNECT));
        wps.extend(single_props(WILL));
        pps.extend(single_props(PUBLISH));
        cps.push(full_props(CONNECT, 0));
        wps.push(full_props(WILL, 0));
        pps.push(full_props(PUBLISH, 0));
    }
    // CONNECT: clean x will(qos, retain) x username x password behind every single property (connect side and will side)
    for &level in &levels {
        for (ci, cp) in cps.iter().enumerate() {
            for (wi, wp) in wps.iter().enumerate() {
                if ci != 0 && wi != 0 && !(ci == cps.len() - 1 && wi == wps.len() - 1) {
                    continue; // vary one side at a time, plus full x full
                }
                for clean in [false, true] {
                    for w in 0..7u8 {
                        if w == 0 && wi != 0 {
                            continue;
                        }
                        for un in [false, true] {
                            for pw in [false, true] {
                                let will = if w == 0 {
                                    None
                                } else {
                                    let q = (w - 1) / 2;
                                    Some(Will { qos: q, retain: (w - 1) % 2 == 1, props: wp.clone(), topic: "w".into(), payload: vec![0x80] })
                                };
                                out.push(Ast::Connect {
                                    level,
                                    clean,
                                    keep_alive: 0x8001,
                                    props: cp.clone(),
                                    client_id: "c".into(),
                                    will,
                                    username: if un { Some("u".into()) } else { None },
                                    password: if pw { Some(vec![0x80]) } else { None },
                                });
                            }
                        }
                    }
                }
            }
        }
    }
    // PUBLISH: dup x qos x retain behind every single property, with empty / non-empty payload
    for pp in &pps {
        for dup in [false, true] {
            for retain in [false, true] {
                for qos in 0..3u8 {
                    for payload in [vec![], vec![0x80u8, 0x00]] {
                        out.push(Ast::Publish { dup, qos, retain, topic: "t".into(), pid: if qos > 0 { Some(0x8001) } else { None }, props: pp.clone(), payload });
                    }
                }
            }
        }
    }
    if v5 {
        // user-property lists with repeated names: all 3-lists over (a,1) (b,2) (a,3) and all 4-lists over (a,1) (b,2),
        // alone in the property set of every owner (same-name entries adjacent, separated, first = last)
        let up = |k: &str, v: &str| Prop { id: tables::USER_PROPERTY, val: PVal::Pair(k.into(), v.into()) };
        let three = [up("a", "1"), up("b", "2"), up("a", "3")];
        let two = [up("a", "1"), up("b", "2")];
        let mut lists: Vec<Props> = Vec::new();
        for i in 0..27usize {
            lists.push(vec![three[i % 3].clone(), three[(i / 3) % 3].clone(), three[i / 9].clone()]);
        }
        for i in 0..16usize {
            lists.push((0..4).map(|b| two[(i >> b) & 1].clone()).collect());
        }
        for l in &lists {
            out.push(Ast::Connect { level: 5, clean: true, keep_alive: 1, props: l.clone(), client_id: "c".into(), will: None, username: None, password: None });
            out.push(Ast::Connect { level: 5, clean: true, keep_alive: 1, props: vec![], client_id: "c".into(), will: Some(Will { qos: 0, retain: false, props: l.clone(), topic: "w".into(), payload: vec![1] }), username: None, password: None });
            out.push(Ast::Connack { session_present: false, code: 0, props: l.clone() });
            out.push(Ast::Publish { dup: false, qos: 0, retain: false, topic: "t".into(), pid: None, props: l.clone(), payload: vec![1] });
            for t in [PUBACK, PUBREC, PUBREL, PUBCOMP] {
                out.push(Ast::Ack { typ: t, pid: 7, code: 0, props: l.clone() });
            }
            out.push(Ast::Subscribe { pid: 7, props: l.clone(), topics: vec![("a".into(), 0)] });
            out.push(Ast::Suback { pid: 7, props: l.clone(), codes: vec![0] });
            out.push(Ast::Unsubscribe { pid: 7, props: l.clone(), topics: vec!["a".into()] });
            out.push(Ast::Unsuback { pid: 7, props: l.clone(), codes: vec![0] });
            out.push(Ast::Disconnect { code: 0, props: l.clone() });
            out.push(Ast::Auth { code: 0, props: l.clone() });
        }
        // every reason code behind every single property (and the full set), both session-present values
        for (t, owner) in [(CONNACK, CONNACK), (DISCONNECT, DISCONNECT), (AUTH, AUTH), (PUBACK, PUBACK), (PUBREC, PUBREC), (PUBREL, PUBREL), (PUBCOMP, PUBCOMP)] {
            let mut sets = single_props(owner);
            sets.push(full_props(owner, 0));
            for ps in sets {
                for &code in tables::reason_codes(t) {
                    match t {
                        CONNACK => {
                            for sp in [false, true] {
                                out.push(Ast::Connack { session_present: sp, code, props: ps.clone() });
                            }
                        }
                        DISCONNECT => out.push(Ast::Disconnect { code, props: ps.clone() }),
                        AUTH => out.push(Ast::Auth { code, props: ps.clone() }),
                        _ => out.push(Ast::Ack { typ: t, pid: 0x8001, code, props: ps.clone() }),
                    }
                }
            }
        }
        // SUBACK / UNSUBACK: every code in first, middle and last position behind every single property
        for t in [SUBACK, UNSUBACK] {
            let codes = tables::reason_codes(t);
            let mut sets = single_props(t);
            sets.push(vec![]);
            for ps in sets {
                for &c in codes {
                    for pos in 0..3 {
                        let mut l = vec![codes[0]; 3];
                        l[pos] = c;
                        out.push(if t == SUBACK { Ast::Suback { pid: 0x8001, props: ps.clone(), codes: l } } else { Ast::Unsuback { pid: 0x8001, props: ps.clone(), codes: l } });
                    }
                }
            }
        }
        // SUBSCRIBE: every option byte in every position of a 3-list, with and without a subscription identifier
        let mut opts = Vec::new();
        for rh in 0..3u8 {
            for rap in 0..2u8 {
                for nl in 0..2u8 {
                    for q in 0..3u8 {
                        opts.push(q | (nl << 2) | (rap << 3) | (rh << 4));
                    }
                }
            }
        }
        for ps in [vec![], vec![Prop { id: tables::SUBSCRIPTION_IDENTIFIER, val: PVal::VarInt(0x81) }]] {
            for &o in &opts {
                for pos in 0..3 {
                    let mut l: Vec<(String, u8)> = vec![("a".into(), 0), ("$share/g/b".into(), 0), ("+/#".into(), 0)];
                    l[pos].1 = o;
                    out.push(Ast::Subscribe { pid: 0x8001, props: ps.clone(), topics: l });
                }
            }
        }
    } else {
        for q in 0..3u8 {
            for pos in 0..3 {
                let mut l: Vec<(String, u8)> = vec![("a".into(), 0), ("b/#".into(), 0), ("+/#".into(), 0)];
                l[pos].1 = q;
                out.push(Ast::Subscribe { pid: 0x8001, props: vec![], topics: l });
            }
        }
        for &c in tables::V3_SUBACK_CODES {
            for pos in 0..3 {
                let mut l = vec![0u8; 3];
                l[pos] = c;
                out.push(Ast::Suback { pid: 0x8001, props: vec![], codes: l });
            }
        }
        for &c in tables::V3_CONNACK_CODES {
            for sp in [false, true] {
                out.push(Ast::Connack { session_present: sp, code: c, props: vec![] });
            }
        }
    }
    out
}

/// (H) relations between slots: every unordered pair of slots of compatible kind of every full packet holds
/// equal content, and content where one is a proper prefix of the other (both directions); numeric slots hold
/// the same number. Varying one field at a time never produces these.
fn relations(family: Family) -> Vec<Ast> {
    let mut out = Vec::new();
    let textual = |k: Kind| matches!(k, Kind::Text | Kind::TopicName | Kind::Filter | Kind::Bin | Kind::Utf8Bin);
    for b in bases(family) {
        let ks = kinds(&b);
        for i in 0..ks.len() {
            for j in (i + 1)..ks.len() {
                if textual(ks[i]) && textual(ks[j]) {
                    for (x, y) in [("eq", "eq"), ("eq", "eqz"), ("eqz", "eq"), ("qe", "eq")] {
                        let a = with_slot(&b, i, &Atom::S(x.to_string()));
                        out.push(with_slot(&a, j, &Atom::S(y.to_string())));
                    }
                } else if !textual(ks[i]) && !textual(ks[j]) {
                    for (x, y) in [(0x1234u32, 0x1234u32), (0x1234, 0x3412)] {
                        let a = with_slot(&b, i, &Atom::N(x));
                        out.push(with_slot(&a, j, &Atom::N(y)));
                    }
                }
            }
        }
        // every textual slot equal to every other at once, every numeric slot equal at once
        let mut all = b.clone();
        for (i, k) in ks.iter().enumerate() {
            all = with_slot(&all, i, &if textual(*k) { Atom::S("same".into()) } else { Atom::N(0x0707) });
        }
        out.push(all);
    }
    out
}

/// Hosts for the fault catalogue (C20, C04) and the targeted text checks (C12) in which parts of ONE packet are
/// related: repeated user-property names with values of different lengths, equal and differently long
/// neighbouring filters (a multi-byte character of the longer one straddling the length of the shorter),
/// repeated codes, several fields with equal content.
pub fn relation_hosts(family: Family) -> Vec<Ast> {
    let v5 = family == Family::V5;
    let mut out = Vec::new();
    let up = |k: &str, v: &str| Prop { id: tables::USER_PROPERTY, val: PVal::Pair(k.into(), v.into()) };
    let plists: Vec<Props> = if v5 {
        vec![vec![up("a", "1"), up("a", "333")], vec![up("a", "333"), up("a", "1")], vec![up("a", "1"), up("b", "2"), up("a", "3")], vec![up("a", "1"), up("a", "1")]]
    } else {
        vec![vec![]]
    };
    let flists: Vec<Vec<&str>> = vec![vec!["aé/x", "ab"], vec!["ab", "aé/x"], vec!["a/b", "a/b"], vec!["a/b", "c", "a/b"], vec!["b", "a"]];
    for pl in &plists {
        for fl in &flists {
            out.push(Ast::Subscribe { pid: 7, props: pl.clone(), topics: fl.iter().enumerate().map(|(i, f)| (f.to_string(), (i % 3) as u8)).collect() });
            out.push(Ast::Unsubscribe { pid: 7, props: pl.clone(), topics: fl.iter().map(|f| f.to_string()).collect() });
        }
        out.push(Ast::Suback { pid: 7, props: pl.clone(), codes: vec![1, 1, 1] });
        out.push(Ast::Publish { dup: false, qos: 1, retain: false, topic: "t".into(), pid: Some(7), props: pl.clone(), payload: b"t".to_vec() });
        if v5 {
            out.push(Ast::Unsuback { pid: 7, props: pl.clone(), codes: vec![0x11, 0x11] });
            out.push(Ast::Connack { session_present: false, code: 0, props: pl.clone() });
            out.push(Ast::Ack { typ: PUBACK, pid: 7, code: 0x10, props: pl.clone() });
            out.push(Ast::Disconnect { code: 0x04, props: pl.clone() });
            out.push(Ast::Auth { code: 0x18, props: pl.clone() });
        }
        let levels: Vec<u8> = if v5 { vec![5] } else { vec![3, 4] };
        for level in levels {
            out.push(Ast::Connect {
                level,
                clean: true,
                keep_alive: 7,
                props: pl.clone(),
                client_id: "same".into(),
                will: Some(Will { qos: 1, retain: false, props: pl.clone(), topic: "same".into(), payload: b"same".to_vec() }),
                username: Some("same".into()),
                password: Some(b"same".to_vec()),
            });
        }
    }
    out
}

/// statistics of one `u_field` call (for the evidence)
#[derive(Clone, Debug, Default)]
pub struct FieldStats {
    pub bases: usize,
    pub slots: usize,
    pub each_slot: usize,
    pub pairs: usize,
    pub flag_products: usize,
    pub relations: usize,
    pub dropped_by_grammar: usize,
    pub kept: usize,
}

/// `U_field(family)`; `pairs` adds (F).
pub fn u_field(family: Family, pairs: bool) -> (Vec<Ast>, FieldStats) {
    let mut st = FieldStats::default();
    let mut cand: Vec<Ast> = Vec::new();
    let bs = bases(family);
    st.bases = bs.len();
    for b in &bs {
        let ks = kinds(b);
        st.slots += ks.len();
        for (i, k) in ks.iter().enumerate() {
            for a in atoms_of(*k) {
                cand.push(with_slot(b, i, &a));
                st.each_slot += 1;
            }
        }
        if pairs {
            for i in 0..ks.len() {
                for j in (i + 1)..ks.len() {
                    for a in pair_atoms_of(ks[i]) {
                        let x = with_slot(b, i, &a);
                        for c in pair_atoms_of(ks[j]) {
                            cand.push(with_slot(&x, j, &c));
                            st.pairs += 1;
                        }
                    }
                }
            }
        }
    }
    let fp = flag_products(family);
    st.flag_products = fp.len();
    cand.extend(fp);
    let rel = relations(family);
    st.relations = rel.len();
    cand.extend(rel);
    let mut seen = HashSet::new();
    cand.retain(|a| seen.insert(a.clone()));
    let total = cand.len();
    // keep what the reference grammar accepts (and reproduces)
    let out: Vec<Ast> = cand
        .into_iter()
        .filter(|a| match enc::encode_bytes(family, a) {
            Some(b) => matches!(dec::decode(family, &b), Verdict::Accept { ast, .. } if ast.canon() == a.canon()),
            None => false,
        })
        .collect();
    st.kept = out.len();
    st.dropped_by_grammar = total - out.len();
    (out, st)
}

// ---------------------------------------------------------------------------------------------
// U_thresh: size thresholds x flags

/// sizes on both sides of every power of two from 32 to 65,536 (size-switched fast paths)
pub fn thresh_sizes(max: usize) -> Vec<usize> {
    let mut v = Vec::new();
    for k in 5..=16u32 {
        let p = 1usize << k;
        for n in [p - 1, p, p + 1] {
            if n <= max {
                v.push(n);
            }
        }
    }
    v
}

/// `U_thresh(family)`: every PUBLISH flag combination (dup x qos x retain) with payloads on both sides of
/// every power of two 2^5..2^16, and every bulk field of the other packet types at those sizes inside a
/// full packet (all optional fields present).
pub fn u_thresh(family: Family) -> Vec<Ast> {
    let v5 = family == Family::V5;
    let mut out = Vec::new();
    let s = |n: usize| -> String { std::iter::repeat('x').take(n).collect() };
    for n in thresh_sizes(65_537) {
        for dup in [false, true] {
            for retain in [false, true] {
                for qos in 0..3u8 {
                    out.push(Ast::Publish { dup, qos, retain, topic: "t".into(), pid: if qos > 0 { Some(0x0102) } else { None }, props: vec![], payload: vec![0xA5; n] });
                }
            }
        }
        if v5 {
            // the same payload sizes behind a property set (dup != retain both ways)
            for (dup, retain) in [(false, true), (true, false)] {
                out.push(Ast::Publish { dup, qos: 1, retain, topic: "t".into(), pid: Some(0x0102), props: full_props(PUBLISH, 0), payload: vec![0xA5; n] });
            }
        }
    }
    let levels: Vec<u8> = if v5 { vec![5] } else { vec![3, 4] };
    for n in thresh_sizes(65_535) {
        for &level in &levels {
            for which in 0..5 {
                let f = |i: usize, small: &str| -> String { if i == which { s(n) } else { small.to_string() } };
                out.push(Ast::Connect {
                    level,
                    clean: false,
                    keep_alive: 0x0102,
                    props: vec![],
                    client_id: f(0, "c"),
                    will: Some(Will { qos: 2, retain: false, props: vec![], topic: f(1, "w"), payload: f(2, "p").into_bytes() }),
                    username: Some(f(3, "u")),
                    password: Some(f(4, "\u{1}").into_bytes()),
                });
            }
        }
        out.push(Ast::Publish { dup: true, qos: 2, retain: false, topic: s(n), pid: Some(0x0102), props: vec![], payload: vec![1, 2, 3] });
        out.push(Ast::Subscribe { pid: 0x0102, props: vec![], topics: vec![("a".into(), 1), (s(n), 2), ("b/#".into(), 0)] });
        out.push(Ast::Unsubscribe { pid: 0x0102, props: vec![], topics: vec!["a".into(), s(n), "b/#".into()] });
        if n <= 4097 {
            out.push(Ast::Suback { pid: 0x0102, props: vec![], codes: (0..n).map(|i| [0u8, 1, 2, 0x80][i % 4]).collect() });
        }
        if v5 {
            let up = |k: String, v: String| Prop { id: tables::USER_PROPERTY, val: PVal::Pair(k, v) };
            out.push(Ast::Ack { typ: PUBACK, pid: 0x0102, code: 0x10, props: vec![Prop { id: 0x1F, val: PVal::Str(s(n)) }, up("k".into(), "v".into())] });
            out.push(Ast::Ack { typ: PUBCOMP, pid: 0x0102, code: 0x00, props: vec![up(s(n), "v".into()), up("k".into(), s(n))] });
            out.push(Ast::Auth { code: 0x18, props: vec![Prop { id: 0x15, val: PVal::Str("m".into()) }, Prop { id: 0x16, val: PVal::Bin(vec![0xA5; n]) }] });
            out.push(Ast::Publish { dup: false, qos: 1, retain: true, topic: "t".into(), pid: Some(0x0102), props: vec![Prop { id: 0x03, val: PVal::Str(s(n)) }, Prop { id: 0x09, val: PVal::Bin(vec![0xA5; n]) }], payload: vec![1] });
            out.push(Ast::Disconnect { code: 0x04, props: vec![Prop { id: 0x1F, val: PVal::Str(s(n)) }] });
            out.push(Ast::Connack { session_present: true, code: 0x00, props: vec![Prop { id: 0x12, val: PVal::Str(s(n)) }, Prop { id: 0x16, val: PVal::Bin(vec![0xA5; n]) }] });
            if n <= 4097 {
                out.push(Ast::Unsuback { pid: 0x0102, props: vec![], codes: (0..n).map(|i| [0u8, 0x11, 0x80][i % 3]).collect() });
            }
        }
    }
    out
}

#[cfg(test)]
mod tests {
    use super::*;
    #[test]
    fn sizes() {
        for fam in [Family::V3, Family::V5] {
            for pairs in [false, true] {
                let (u, st) = u_field(fam, pairs);
                eprintln!("{fam:?} pairs={pairs}: {} values {st:?}", u.len());
                assert!(u.len() > 1000);
            }
            eprintln!("{fam:?} thresh: {}", u_thresh(fam).len());
        }
    }
}
