//! The two codec families behind one trait, so that every check is written once.

use crate::bind;
use mqtt_proto::{v3, v5, Encodable, PollHeader, TopicFilter, TopicName, VarBytes};
use mqtt_ref::ast::ptype;
use mqtt_ref::dec::Viol;
use mqtt_ref::{text, Ast, Family};
use std::fmt::Debug;
use std::future::Future;
use std::hash::Hash;
use std::io;
use tokio::io::{AsyncRead, AsyncWrite};

/// A separately encodable part of a packet: name, declared length, bytes actually written (or error).
pub struct Part {
    pub name: &'static str,
    pub declared: usize,
    pub written: Result<Vec<u8>, String>,
}

fn part<E: Encodable>(name: &'static str, e: &E) -> Part {
    let mut v = Vec::new();
    let r = e.encode(&mut v);
    Part { name, declared: e.encode_len(), written: r.map(|_| v).map_err(|e| e.to_string()) }
}

pub trait Fam: Sized + Send + Sync + 'static {
    const FAMILY: Family;
    const NAME: &'static str;
    type Packet: Clone + Debug + PartialEq + Send + Sync + 'static;
    type Error: Clone + Debug + PartialEq + Send + Sync + 'static + From<io::Error> + From<mqtt_proto::Error>;
    type Header: PollHeader<Packet = Self::Packet, Error = Self::Error> + Copy + Unpin + Debug + PartialEq + Eq + Hash + Send + Sync + 'static;

    fn from_ast(a: &Ast) -> Option<Self::Packet>;
    fn decode(b: &[u8]) -> Result<Option<Self::Packet>, Self::Error>;
    fn decode_async<R: AsyncRead + Unpin>(r: &mut R) -> impl Future<Output = Result<Self::Packet, Self::Error>>;
    fn header_decode(b: &[u8]) -> Result<Self::Header, Self::Error>;
    fn header_decode_async<R: AsyncRead + Unpin>(r: &mut R) -> impl Future<Output = Result<Self::Header, Self::Error>>;
    fn header_new_with(hd: u8, rem: u32) -> Result<Self::Header, Self::Error>;
    fn encode(p: &Self::Packet) -> Result<VarBytes, mqtt_proto::Error>;
    fn encode_len(p: &Self::Packet) -> Result<usize, Self::Error>;
    fn encode_async<W: AsyncWrite + Unpin>(p: &Self::Packet, w: &mut W) -> impl Future<Output = Result<(), Self::Error>>;
    fn is_eof(e: &Self::Error) -> bool;
    fn common(e: mqtt_proto::Error) -> Self::Error;
    fn as_common(e: &Self::Error) -> Option<&mqtt_proto::Error>;
    fn from_io(e: io::Error) -> Self::Error;
    fn into_io(e: Self::Error) -> Option<io::Error>;
    /// (type nibble, dup, qos, retain, remaining length) by field/variant name
    fn header_fields(h: &Self::Header) -> (u8, bool, u8, bool, u32);
    /// the packet's body streamed into `w`: (control byte per the specification, declared length, result);
    /// `None` for packets the crate encodes without an `Encodable` body
    fn body<W: io::Write>(p: &Self::Packet, w: &mut W) -> Option<(u8, usize, io::Result<()>)>;
    fn parts(p: &Self::Packet) -> Vec<Part>;
    /// C12: the invariants the field types promise
    fn walk(p: &Self::Packet) -> Result<(), String>;
    /// C20: the documented error for a reference violation
    fn expect_err(v: &Viol) -> Option<Self::Error>;
    fn type_nibble(p: &Self::Packet) -> u8;
    /// decode the rest of a CONNECT after the protocol name/level have been consumed elsewhere
    fn connect_with_protocol<R: AsyncRead + Unpin>(
        r: &mut R,
        header: Self::Header,
        protocol: mqtt_proto::Protocol,
    ) -> impl Future<Output = Result<Self::Packet, Self::Error>>;

    /// Every public per-body / per-property-set decoder called directly on `b` (with the headers
    /// `hd`, `rem` where one is needed): (entry point, packet to walk if it returned a value).
    /// Panics propagate to the caller's guard.
    fn sub_decoders(b: &[u8], hd: u8, rem: u32) -> Vec<(&'static str, Option<Self::Packet>)>;

    fn io_kind(e: &Self::Error) -> Option<io::ErrorKind> {
        match Self::as_common(e) {
            Some(mqtt_proto::Error::IoError(k, _)) => Some(*k),
            _ => None,
        }
    }
}

pub struct V3;
pub struct V5;

// ---------------------------------------------------------------------------------------------
// walkers

fn chk_str(what: &str, s: &str) -> Result<(), String> {
    std::str::from_utf8(s.as_bytes()).map(|_| ()).map_err(|_| format!("{what}: text field is not valid UTF-8: {:02x?}", s.as_bytes()))
}

fn chk_topic(what: &str, t: &TopicName) -> Result<(), String> {
    chk_str(what, t)?;
    if TopicName::is_invalid(t) {
        return Err(format!("{what}: topic name {:?} fails TopicName::is_invalid", &**t));
    }
    if !text::topic_name_valid(t) {
        return Err(format!("{what}: topic name {:?} is not a valid topic name", &**t));
    }
    let _ = (t.is_shared(), t.is_sys());
    Ok(())
}

fn chk_filter(what: &str, f: &TopicFilter) -> Result<(), String> {
    chk_str(what, f)?;
    if TopicFilter::is_invalid(f).0 {
        return Err(format!("{what}: topic filter {:?} fails TopicFilter::is_invalid", &**f));
    }
    // accessors must work (no panic) and agree with the split of the text
    let info = f.shared_info();
    let g = f.shared_group_name();
    let sf = f.shared_filter();
    let _ = f.is_sys();
    match text::filter(f) {
        text::Filter::Invalid => return Err(format!("{what}: topic filter {:?} is not a valid filter", &**f)),
        text::Filter::Plain => {
            if f.is_shared() || info.is_some() || g.is_some() || sf.is_some() {
                return Err(format!("{what}: plain filter {:?} reports share parts {:?}", &**f, info));
            }
        }
        text::Filter::Shared { group, filter } => {
            if !f.is_shared() || info != Some((group, filter)) || g != Some(group) || sf != Some(filter) {
                return Err(format!("{what}: shared filter {:?} reports {:?}, expected {:?}", &**f, info, (group, filter)));
            }
        }
    }
    Ok(())
}

fn chk_pid(what: &str, p: mqtt_proto::Pid) -> Result<(), String> {
    if p.value() == 0 {
        Err(format!("{what}: packet identifier 0"))
    } else {
        Ok(())
    }
}

fn chk_qp(what: &str, q: mqtt_proto::QosPid) -> Result<(), String> {
    match q.pid() {
        Some(p) => chk_pid(what, p),
        None => Ok(()),
    }
}

fn chk_ups(what: &str, u: &[v5::UserProperty]) -> Result<(), String> {
    for p in u {
        chk_str(what, &p.name)?;
        chk_str(what, &p.value)?;
    }
    Ok(())
}

fn chk_opt(what: &str, s: &Option<std::sync::Arc<String>>) -> Result<(), String> {
    match s {
        Some(s) => chk_str(what, s),
        None => Ok(()),
    }
}

fn chk_vbi(what: &str, v: &Option<v5::VarByteInt>) -> Result<(), String> {
    match v {
        Some(v) if v.value() >= 268_435_456 => Err(format!("{what}: variable byte integer {} out of range", v.value())),
        _ => Ok(()),
    }
}

// ---------------------------------------------------------------------------------------------
// V3

impl Fam for V3 {
    const FAMILY: Family = Family::V3;
    const NAME: &'static str = "v3";
    type Packet = v3::Packet;
    type Error = mqtt_proto::Error;
    type Header = v3::Header;

    fn from_ast(a: &Ast) -> Option<Self::Packet> {
        bind::v3_from_ast(a)
    }
    fn decode(b: &[u8]) -> Result<Option<Self::Packet>, Self::Error> {
        v3::Packet::decode(b)
    }
    fn decode_async<R: AsyncRead + Unpin>(r: &mut R) -> impl Future<Output = Result<Self::Packet, Self::Error>> {
        v3::Packet::decode_async(r)
    }
    fn header_decode(b: &[u8]) -> Result<Self::Header, Self::Error> {
        v3::Header::decode(b)
    }
    fn header_decode_async<R: AsyncRead + Unpin>(r: &mut R) -> impl Future<Output = Result<Self::Header, Self::Error>> {
        v3::Header::decode_async(r)
    }
    fn header_new_with(hd: u8, rem: u32) -> Result<Self::Header, Self::Error> {
        v3::Header::new_with(hd, rem)
    }
    fn encode(p: &Self::Packet) -> Result<VarBytes, mqtt_proto::Error> {
        p.encode()
    }
    fn encode_len(p: &Self::Packet) -> Result<usize, Self::Error> {
        p.encode_len()
    }
    fn encode_async<W: AsyncWrite + Unpin>(p: &Self::Packet, w: &mut W) -> impl Future<Output = Result<(), Self::Error>> {
        p.encode_async(w)
    }
    fn is_eof(e: &Self::Error) -> bool {
        e.is_eof()
    }
    fn common(e: mqtt_proto::Error) -> Self::Error {
        e
    }
    fn as_common(e: &Self::Error) -> Option<&mqtt_proto::Error> {
        Some(e)
    }
    fn from_io(e: io::Error) -> Self::Error {
        e.into()
    }
    fn into_io(e: Self::Error) -> Option<io::Error> {
        Some(e.into())
    }
    fn header_fields(h: &Self::Header) -> (u8, bool, u8, bool, u32) {
        use v3::PacketType::*;
        let t = match h.typ {
            Connect => 1,
            Connack => 2,
            Publish => 3,
            Puback => 4,
            Pubrec => 5,
            Pubrel => 6,
            Pubcomp => 7,
            Subscribe => 8,
            Suback => 9,
            Unsubscribe => 10,
            Unsuback => 11,
            Pingreq => 12,
            Pingresp => 13,
            Disconnect => 14,
        };
        let q = match h.qos {
            mqtt_proto::QoS::Level0 => 0,
            mqtt_proto::QoS::Level1 => 1,
            mqtt_proto::QoS::Level2 => 2,
        };
        (t, h.dup, q, h.retain, h.remaining_len)
    }
    fn body<W: io::Write>(p: &Self::Packet, w: &mut W) -> Option<(u8, usize, io::Result<()>)> {
        use v3::Packet::*;
        Some(match p {
            Connect(x) => (0x10, x.encode_len(), x.encode(w)),
            Publish(x) => {
                let q = match x.qos_pid {
                    mqtt_proto::QosPid::Level0 => 0u8,
                    mqtt_proto::QosPid::Level1(_) => 1,
                    mqtt_proto::QosPid::Level2(_) => 2,
                };
                (0x30 | ((x.dup as u8) << 3) | (q << 1) | (x.retain as u8), x.encode_len(), x.encode(w))
            }
            Subscribe(x) => (0x82, x.encode_len(), x.encode(w)),
            Suback(x) => (0x90, x.encode_len(), x.encode(w)),
            Unsubscribe(x) => (0xA2, x.encode_len(), x.encode(w)),
            _ => return None,
        })
    }
    fn parts(p: &Self::Packet) -> Vec<Part> {
        use v3::Packet::*;
        let mut v = Vec::new();
        match p {
            Connect(x) => {
                v.push(part("v3::Connect", x));
                v.push(part("Protocol", &x.protocol));
                if let Some(w) = &x.last_will {
                    v.push(part("v3::LastWill", w));
                }
            }
            Publish(x) => v.push(part("v3::Publish", x)),
            Subscribe(x) => v.push(part("v3::Subscribe", x)),
            Suback(x) => v.push(part("v3::Suback", x)),
            Unsubscribe(x) => v.push(part("v3::Unsubscribe", x)),
            _ => {}
        }
        v
    }
    fn walk(p: &Self::Packet) -> Result<(), String> {
        use v3::Packet::*;
        match p {
            Connect(c) => {
                chk_str("connect.client_id", &c.client_id)?;
                chk_opt("connect.username", &c.username)?;
                if let Some(w) = &c.last_will {
                    chk_topic("connect.will.topic", &w.topic_name)?;
                }
            }
            Publish(x) => {
                chk_topic("publish.topic", &x.topic_name)?;
                chk_qp("publish.pid", x.qos_pid)?;
            }
            Puback(p) | Pubrec(p) | Pubrel(p) | Pubcomp(p) | Unsuback(p) => chk_pid("ack.pid", *p)?,
            Subscribe(s) => {
                chk_pid("subscribe.pid", s.pid)?;
                for (f, _) in &s.topics {
                    chk_filter("subscribe.filter", f)?;
                }
            }
            Suback(s) => chk_pid("suback.pid", s.pid)?,
            Unsubscribe(s) => {
                chk_pid("unsubscribe.pid", s.pid)?;
                for f in &s.topics {
                    chk_filter("unsubscribe.filter", f)?;
                }
            }
            Connack(_) | Pingreq | Pingresp | Disconnect => {}
        }
        Ok(())
    }
    fn expect_err(v: &Viol) -> Option<Self::Error> {
        common_expect(v)
    }
    fn sub_decoders(b: &[u8], hd: u8, rem: u32) -> Vec<(&'static str, Option<Self::Packet>)> {
        use crate::env::run_ready as rr;
        let mut out: Vec<(&'static str, Option<Self::Packet>)> = Vec::new();
        let header = v3::Header::new_with(hd, rem).ok();
        let mut r: &[u8] = b;
        out.push(("v3::Connect::decode_async", rr(v3::Connect::decode_async(&mut r)).and_then(|x| x.ok()).map(Into::into)));
        let mut r: &[u8] = b;
        out.push(("v3::Connack::decode_async", rr(v3::Connack::decode_async(&mut r)).and_then(|x| x.ok()).map(Into::into)));
        let mut r: &[u8] = b;
        out.push(("v3::Subscribe::decode_async", rr(v3::Subscribe::decode_async(&mut r, rem as usize)).and_then(|x| x.ok()).map(Into::into)));
        let mut r: &[u8] = b;
        out.push(("v3::Suback::decode_async", rr(v3::Suback::decode_async(&mut r, rem as usize)).and_then(|x| x.ok()).map(Into::into)));
        let mut r: &[u8] = b;
        out.push(("v3::Unsubscribe::decode_async", rr(v3::Unsubscribe::decode_async(&mut r, rem as usize)).and_then(|x| x.ok()).map(Into::into)));
        if let Some(h) = header {
            let mut r: &[u8] = b;
            out.push(("v3::Publish::decode_async", rr(v3::Publish::decode_async(&mut r, h)).and_then(|x| x.ok()).map(Into::into)));
        }
        for p in [mqtt_proto::Protocol::V310, mqtt_proto::Protocol::V311, mqtt_proto::Protocol::V500] {
            let mut r: &[u8] = b;
            out.push(("v3::Connect::decode_with_protocol", rr(v3::Connect::decode_with_protocol(&mut r, p)).and_then(|x| x.ok()).map(Into::into)));
        }
        let mut r: &[u8] = b;
        let _ = rr(mqtt_proto::Protocol::decode_async(&mut r));
        out.push(("Protocol::decode_async", None));
        let mut r: &[u8] = b;
        let _ = rr(mqtt_proto::decode_raw_header(&mut r));
        out.push(("decode_raw_header", None));
        out
    }
    fn type_nibble(p: &Self::Packet) -> u8 {
        use v3::Packet::*;
        match p {
            Connect(_) => 1,
            Connack(_) => 2,
            Publish(_) => 3,
            Puback(_) => 4,
            Pubrec(_) => 5,
            Pubrel(_) => 6,
            Pubcomp(_) => 7,
            Subscribe(_) => 8,
            Suback(_) => 9,
            Unsubscribe(_) => 10,
            Unsuback(_) => 11,
            Pingreq => 12,
            Pingresp => 13,
            Disconnect => 14,
        }
    }
    async fn connect_with_protocol<R: AsyncRead + Unpin>(
        r: &mut R,
        _header: Self::Header,
        protocol: mqtt_proto::Protocol,
    ) -> Result<Self::Packet, Self::Error> {
        v3::Connect::decode_with_protocol(r, protocol).await.map(Into::into)
    }
}

/// Errors shared by both families (mqtt_proto::Error), from the reference violation.
fn common_expect(v: &Viol) -> Option<mqtt_proto::Error> {
    use mqtt_proto::Error as E;
    Some(match v {
        Viol::BadType(_) | Viol::BadFlags(_) | Viol::BodylessNonZeroLen => E::InvalidHeader,
        Viol::PublishQos3 => E::InvalidQos(3),
        Viol::ZeroPid => E::ZeroPid,
        Viol::BadQos(n) | Viol::BadSubackCode(n) => E::InvalidQos(*n),
        Viol::BadConnackCode(n) => E::InvalidConnectReturnCode(*n),
        Viol::BadConnackFlags(n) => E::InvalidConnackFlags(*n),
        Viol::BadConnectFlags(n) => E::InvalidConnectFlags(*n),
        Viol::BadUtf8 => E::InvalidString,
        Viol::BadTopicName(s) => E::InvalidTopicName(s.clone()),
        Viol::BadFilter(s) => E::InvalidTopicFilter(s.clone()),
        Viol::VarIntTooLong => E::InvalidVarByteInt,
        Viol::BadProtocol(name, level) => E::InvalidProtocol(String::from_utf8(name.clone()).ok()?, *level),
        Viol::OtherFamily(level) => E::UnexpectedProtocol(bind::protocol(*level)?),
        Viol::NoTopics => E::EmptySubscription,
        Viol::Truncated | Viol::Trailing => E::InvalidRemainingLength,
        _ => return None,
    })
}

// ---------------------------------------------------------------------------------------------
// V5

impl Fam for V5 {
    const FAMILY: Family = Family::V5;
    const NAME: &'static str = "v5";
    type Packet = v5::Packet;
    type Error = v5::ErrorV5;
    type Header = v5::Header;

    fn from_ast(a: &Ast) -> Option<Self::Packet> {
        bind::v5_from_ast(a)
    }
    fn decode(b: &[u8]) -> Result<Option<Self::Packet>, Self::Error> {
        v5::Packet::decode(b)
    }
    fn decode_async<R: AsyncRead + Unpin>(r: &mut R) -> impl Future<Output = Result<Self::Packet, Self::Error>> {
        v5::Packet::decode_async(r)
    }
    fn header_decode(b: &[u8]) -> Result<Self::Header, Self::Error> {
        v5::Header::decode(b)
    }
    fn header_decode_async<R: AsyncRead + Unpin>(r: &mut R) -> impl Future<Output = Result<Self::Header, Self::Error>> {
        v5::Header::decode_async(r)
    }
    fn header_new_with(hd: u8, rem: u32) -> Result<Self::Header, Self::Error> {
        v5::Header::new_with(hd, rem)
    }
    fn encode(p: &Self::Packet) -> Result<VarBytes, mqtt_proto::Error> {
        p.encode()
    }
    fn encode_len(p: &Self::Packet) -> Result<usize, Self::Error> {
        p.encode_len()
    }
    fn encode_async<W: AsyncWrite + Unpin>(p: &Self::Packet, w: &mut W) -> impl Future<Output = Result<(), Self::Error>> {
        p.encode_async(w)
    }
    fn is_eof(e: &Self::Error) -> bool {
        e.is_eof()
    }
    fn common(e: mqtt_proto::Error) -> Self::Error {
        e.into()
    }
    fn as_common(e: &Self::Error) -> Option<&mqtt_proto::Error> {
        match e {
            v5::ErrorV5::Common(c) => Some(c),
            _ => None,
        }
    }
    fn from_io(e: io::Error) -> Self::Error {
        e.into()
    }
    fn into_io(_e: Self::Error) -> Option<io::Error> {
        None
    }
    fn header_fields(h: &Self::Header) -> (u8, bool, u8, bool, u32) {
        use v5::PacketType::*;
        let t = match h.typ {
            Connect => 1,
            Connack => 2,
            Publish => 3,
            Puback => 4,
            Pubrec => 5,
            Pubrel => 6,
            Pubcomp => 7,
            Subscribe => 8,
            Suback => 9,
            Unsubscribe => 10,
            Unsuback => 11,
            Pingreq => 12,
            Pingresp => 13,
            Disconnect => 14,
            Auth => 15,
        };
        let q = match h.qos {
            mqtt_proto::QoS::Level0 => 0,
            mqtt_proto::QoS::Level1 => 1,
            mqtt_proto::QoS::Level2 => 2,
        };
        (t, h.dup, q, h.retain, h.remaining_len)
    }
    fn body<W: io::Write>(p: &Self::Packet, w: &mut W) -> Option<(u8, usize, io::Result<()>)> {
        use v5::Packet::*;
        Some(match p {
            Connect(x) => (0x10, x.encode_len(), x.encode(w)),
            Connack(x) => (0x20, x.encode_len(), x.encode(w)),
            Publish(x) => {
                let q = match x.qos_pid {
                    mqtt_proto::QosPid::Level0 => 0u8,
                    mqtt_proto::QosPid::Level1(_) => 1,
                    mqtt_proto::QosPid::Level2(_) => 2,
                };
                (0x30 | ((x.dup as u8) << 3) | (q << 1) | (x.retain as u8), x.encode_len(), x.encode(w))
            }
            Puback(x) => (0x40, x.encode_len(), x.encode(w)),
            Pubrec(x) => (0x50, x.encode_len(), x.encode(w)),
            Pubrel(x) => (0x62, x.encode_len(), x.encode(w)),
            Pubcomp(x) => (0x70, x.encode_len(), x.encode(w)),
            Subscribe(x) => (0x82, x.encode_len(), x.encode(w)),
            Suback(x) => (0x90, x.encode_len(), x.encode(w)),
            Unsubscribe(x) => (0xA2, x.encode_len(), x.encode(w)),
            Unsuback(x) => (0xB0, x.encode_len(), x.encode(w)),
            Disconnect(x) => (0xE0, x.encode_len(), x.encode(w)),
            Auth(x) => (0xF0, x.encode_len(), x.encode(w)),
            Pingreq | Pingresp => return None,
        })
    }
    fn parts(p: &Self::Packet) -> Vec<Part> {
        use v5::Packet::*;
        let mut v = Vec::new();
        match p {
            Connect(x) => {
                v.push(part("v5::Connect", x));
                v.push(part("Protocol", &x.protocol));
                v.push(part("v5::ConnectProperties", &x.properties));
                if let Some(w) = &x.last_will {
                    v.push(part("v5::LastWill", w));
                    v.push(part("v5::WillProperties", &w.properties));
                }
            }
            Connack(x) => {
                v.push(part("v5::Connack", x));
                v.push(part("v5::ConnackProperties", &x.properties));
            }
            Publish(x) => {
                v.push(part("v5::Publish", x));
                v.push(part("v5::PublishProperties", &x.properties));
            }
            Puback(x) => {
                v.push(part("v5::Puback", x));
                v.push(part("v5::PubackProperties", &x.properties));
            }
            Pubrec(x) => {
                v.push(part("v5::Pubrec", x));
                v.push(part("v5::PubrecProperties", &x.properties));
            }
            Pubrel(x) => {
                v.push(part("v5::Pubrel", x));
                v.push(part("v5::PubrelProperties", &x.properties));
            }
            Pubcomp(x) => {
                v.push(part("v5::Pubcomp", x));
                v.push(part("v5::PubcompProperties", &x.properties));
            }
            Subscribe(x) => {
                v.push(part("v5::Subscribe", x));
                v.push(part("v5::SubscribeProperties", &x.properties));
            }
            Suback(x) => {
                v.push(part("v5::Suback", x));
                v.push(part("v5::SubackProperties", &x.properties));
            }
            Unsubscribe(x) => {
                v.push(part("v5::Unsubscribe", x));
                v.push(part("v5::UnsubscribeProperties", &x.properties));
            }
            Unsuback(x) => {
                v.push(part("v5::Unsuback", x));
                v.push(part("v5::UnsubackProperties", &x.properties));
            }
            Disconnect(x) => {
                v.push(part("v5::Disconnect", x));
                v.push(part("v5::DisconnectProperties", &x.properties));
            }
            Auth(x) => {
                v.push(part("v5::Auth", x));
                v.push(part("v5::AuthProperties", &x.properties));
            }
            Pingreq | Pingresp => {}
        }
        v
    }
    fn walk(p: &Self::Packet) -> Result<(), String> {
        use v5::Packet::*;
        match p {
            Connect(c) => {
                chk_str("connect.client_id", &c.client_id)?;
                chk_opt("connect.username", &c.username)?;
                chk_opt("connect.auth_method", &c.properties.auth_method)?;
                chk_ups("connect.user_properties", &c.properties.user_properties)?;
                if let Some(w) = &c.last_will {
                    chk_topic("connect.will.topic", &w.topic_name)?;
                    chk_opt("connect.will.content_type", &w.properties.content_type)?;
                    if let Some(t) = &w.properties.response_topic {
                        chk_topic("connect.will.response_topic", t)?;
                    }
                    chk_ups("connect.will.user_properties", &w.properties.user_properties)?;
                    if w.properties.payload_is_utf8 == Some(true) && std::str::from_utf8(&w.payload).is_err() {
                        return Err("connect.will: payload flagged UTF-8 is not UTF-8".into());
                    }
                }
            }
            Connack(c) => {
                let p = &c.properties;
                chk_opt("connack.assigned_client_id", &p.assigned_client_id)?;
                chk_opt("connack.reason_string", &p.reason_string)?;
                chk_opt("connack.response_info", &p.response_info)?;
                chk_opt("connack.server_reference", &p.server_reference)?;
                chk_opt("connack.auth_method", &p.auth_method)?;
                chk_ups("connack.user_properties", &p.user_properties)?;
                if let Some(q) = p.max_qos {
                    if q == mqtt_proto::QoS::Level2 {
                        return Err("connack.max_qos = 2".into());
                    }
                }
            }
            Publish(x) => {
                chk_topic("publish.topic", &x.topic_name)?;
                chk_qp("publish.pid", x.qos_pid)?;
                let p = &x.properties;
                chk_opt("publish.content_type", &p.content_type)?;
                if let Some(t) = &p.response_topic {
                    chk_topic("publish.response_topic", t)?;
                }
                chk_ups("publish.user_properties", &p.user_properties)?;
                chk_vbi("publish.subscription_id", &p.subscription_id)?;
                if p.payload_is_utf8 == Some(true) && std::str::from_utf8(&x.payload).is_err() {
                    return Err("publish: payload flagged UTF-8 is not UTF-8".into());
                }
            }
            Puback(x) => {
                chk_pid("puback.pid", x.pid)?;
                chk_opt("puback.reason_string", &x.properties.reason_string)?;
                chk_ups("puback.user_properties", &x.properties.user_properties)?;
            }
            Pubrec(x) => {
                chk_pid("pubrec.pid", x.pid)?;
                chk_opt("pubrec.reason_string", &x.properties.reason_string)?;
                chk_ups("pubrec.user_properties", &x.properties.user_properties)?;
            }
            Pubrel(x) => {
                chk_pid("pubrel.pid", x.pid)?;
                chk_opt("pubrel.reason_string", &x.properties.reason_string)?;
                chk_ups("pubrel.user_properties", &x.properties.user_properties)?;
            }
            Pubcomp(x) => {
                chk_pid("pubcomp.pid", x.pid)?;
                chk_opt("pubcomp.reason_string", &x.properties.reason_string)?;
                chk_ups("pubcomp.user_properties", &x.properties.user_properties)?;
            }
            Subscribe(s) => {
                chk_pid("subscribe.pid", s.pid)?;
                chk_vbi("subscribe.subscription_id", &s.properties.subscription_id)?;
                chk_ups("subscribe.user_properties", &s.properties.user_properties)?;
                for (f, _) in &s.topics {
                    chk_filter("subscribe.filter", f)?;
                }
            }
            Suback(s) => {
                chk_pid("suback.pid", s.pid)?;
                chk_opt("suback.reason_string", &s.properties.reason_string)?;
                chk_ups("suback.user_properties", &s.properties.user_properties)?;
            }
            Unsubscribe(s) => {
                chk_pid("unsubscribe.pid", s.pid)?;
                chk_ups("unsubscribe.user_properties", &s.properties.user_properties)?;
                for f in &s.topics {
                    chk_filter("unsubscribe.filter", f)?;
                }
            }
            Unsuback(s) => {
                chk_pid("unsuback.pid", s.pid)?;
                chk_opt("unsuback.reason_string", &s.properties.reason_string)?;
                chk_ups("unsuback.user_properties", &s.properties.user_properties)?;
            }
            Disconnect(d) => {
                chk_opt("disconnect.reason_string", &d.properties.reason_string)?;
                chk_opt("disconnect.server_reference", &d.properties.server_reference)?;
                chk_ups("disconnect.user_properties", &d.properties.user_properties)?;
            }
            Auth(a) => {
                chk_opt("auth.auth_method", &a.properties.auth_method)?;
                chk_opt("auth.reason_string", &a.properties.reason_string)?;
                chk_ups("auth.user_properties", &a.properties.user_properties)?;
            }
            Pingreq | Pingresp => {}
        }
        Ok(())
    }
    fn expect_err(v: &Viol) -> Option<Self::Error> {
        use v5::ErrorV5 as E;
        if let Some(c) = common_expect(v) {
            return Some(E::Common(c));
        }
        Some(match v {
            Viol::BadReasonCode(t, n) => E::InvalidReasonCode(bind::v5_packet_type(*t)?, *n),
            Viol::BadSubOpts(b) => E::InvalidSubscriptionOption(*b),
            Viol::BadResponseTopic => E::InvalidResponseTopic,
            Viol::UnknownPropId(n) => E::InvalidPropertyId(*n),
            Viol::DupProp(id) => E::DuplicatedProperty(bind::v5_property_id(*id)?),
            Viol::PropNotAllowed(t, id) => E::InvalidProperty(bind::v5_packet_type(*t)?, bind::v5_property_id(*id)?),
            Viol::WillPropNotAllowed(id) => E::InvalidWillProperty(bind::v5_property_id(*id)?),
            Viol::BadPropLen(n) => E::InvalidPropertyLength(*n),
            Viol::BadByteProp(id, v) => E::InvalidByteProperty(bind::v5_property_id(*id)?, *v),
            Viol::BadPayloadFormat => E::InvalidPayloadFormat,
            _ => return None,
        })
    }
    fn sub_decoders(b: &[u8], hd: u8, rem: u32) -> Vec<(&'static str, Option<Self::Packet>)> {
        use crate::env::run_ready as rr;
        use v5::PacketType as T;
        let mut out: Vec<(&'static str, Option<Self::Packet>)> = Vec::new();
        macro_rules! body {
            ($name:literal, $ty:ty, $control:expr) => {
                if let Ok(h) = v5::Header::new_with($control, rem) {
                    let mut r: &[u8] = b;
                    out.push(($name, rr(<$ty>::decode_async(&mut r, h)).and_then(|x| x.ok()).map(Into::into)));
                }
            };
        }
        body!("v5::Connect::decode_async", v5::Connect, 0x10);
        body!("v5::Connack::decode_async", v5::Connack, 0x20);
        body!("v5::Publish::decode_async", v5::Publish, if hd >> 4 == 3 { hd } else { 0x32 });
        body!("v5::Puback::decode_async", v5::Puback, 0x40);
        body!("v5::Pubrec::decode_async", v5::Pubrec, 0x50);
        body!("v5::Pubrel::decode_async", v5::Pubrel, 0x62);
        body!("v5::Pubcomp::decode_async", v5::Pubcomp, 0x70);
        body!("v5::Subscribe::decode_async", v5::Subscribe, 0x82);
        body!("v5::Suback::decode_async", v5::Suback, 0x90);
        body!("v5::Unsubscribe::decode_async", v5::Unsubscribe, 0xA2);
        body!("v5::Unsuback::decode_async", v5::Unsuback, 0xB0);
        body!("v5::Disconnect::decode_async", v5::Disconnect, 0xE0);
        body!("v5::Auth::decode_async", v5::Auth, 0xF0);
        macro_rules! props {
            ($name:literal, $ty:ty, $pt:expr) => {{
                let mut r: &[u8] = b;
                let _ = rr(<$ty>::decode_async(&mut r, $pt));
                out.push(($name, None));
            }};
        }
        props!("v5::ConnectProperties::decode_async", v5::ConnectProperties, T::Connect);
        props!("v5::ConnackProperties::decode_async", v5::ConnackProperties, T::Connack);
        props!("v5::PublishProperties::decode_async", v5::PublishProperties, T::Publish);
        props!("v5::PubackProperties::decode_async", v5::PubackProperties, T::Puback);
        props!("v5::PubrecProperties::decode_async", v5::PubrecProperties, T::Pubrec);
        props!("v5::PubrelProperties::decode_async", v5::PubrelProperties, T::Pubrel);
        props!("v5::PubcompProperties::decode_async", v5::PubcompProperties, T::Pubcomp);
        props!("v5::SubscribeProperties::decode_async", v5::SubscribeProperties, T::Subscribe);
        props!("v5::SubackProperties::decode_async", v5::SubackProperties, T::Suback);
        props!("v5::UnsubscribeProperties::decode_async", v5::UnsubscribeProperties, T::Unsubscribe);
        props!("v5::UnsubackProperties::decode_async", v5::UnsubackProperties, T::Unsuback);
        props!("v5::DisconnectProperties::decode_async", v5::DisconnectProperties, T::Disconnect);
        props!("v5::AuthProperties::decode_async", v5::AuthProperties, T::Auth);
        {
            let mut r: &[u8] = b;
            let _ = rr(v5::WillProperties::decode_async(&mut r));
            out.push(("v5::WillProperties::decode_async", None));
            for q in [mqtt_proto::QoS::Level0, mqtt_proto::QoS::Level2] {
                let mut r: &[u8] = b;
                let _ = rr(v5::LastWill::decode_async(&mut r, q, true));
            }
            out.push(("v5::LastWill::decode_async", None));
        }
        if let Ok(h) = v5::Header::new_with(0x10, rem) {
            for p in [mqtt_proto::Protocol::V310, mqtt_proto::Protocol::V311, mqtt_proto::Protocol::V500] {
                let mut r: &[u8] = b;
                out.push(("v5::Connect::decode_with_protocol", rr(v5::Connect::decode_with_protocol(&mut r, h, p)).and_then(|x| x.ok()).map(Into::into)));
            }
        }
        out
    }
    fn type_nibble(p: &Self::Packet) -> u8 {
        use v5::Packet::*;
        match p {
            Connect(_) => 1,
            Connack(_) => 2,
            Publish(_) => 3,
            Puback(_) => 4,
            Pubrec(_) => 5,
            Pubrel(_) => 6,
            Pubcomp(_) => 7,
            Subscribe(_) => 8,
            Suback(_) => 9,
            Unsubscribe(_) => 10,
            Unsuback(_) => 11,
            Pingreq => 12,
            Pingresp => 13,
            Disconnect(_) => 14,
            Auth(_) => 15,
        }
    }
    async fn connect_with_protocol<R: AsyncRead + Unpin>(
        r: &mut R,
        header: Self::Header,
        protocol: mqtt_proto::Protocol,
    ) -> Result<Self::Packet, Self::Error> {
        v5::Connect::decode_with_protocol(r, header, protocol).await.map(Into::into)
    }
}

pub fn nibble_name(t: u8) -> &'static str {
    ptype::name(t)
}
