//! Harness-side allocator shim. The poll decoder allocates an (untouched, uninitialised) body
//! buffer of the declared remaining length before reading a single body byte; enumerating all
//! 2^28 remaining lengths would otherwise spend its time in mmap/munmap under the process-wide
//! memory-map lock. Requests of >= 1 MiB for *uninitialised* memory are served from one cached
//! region per thread; everything else, and all zeroed requests, go to the system allocator.
//! The subject's behaviour is unchanged (it gets valid, exclusively owned memory either way).

use std::alloc::{GlobalAlloc, Layout, System};
use std::cell::Cell;

pub struct BigCache;

const BIG: usize = 1 << 20;
const REGION: usize = (1 << 28) + (1 << 16);

thread_local! {
    static CACHED: Cell<(*mut u8, bool)> = const { Cell::new((std::ptr::null_mut(), false)) };
}

unsafe impl GlobalAlloc for BigCache {
    unsafe fn alloc(&self, layout: Layout) -> *mut u8 {
        if layout.size() >= BIG && layout.size() <= REGION && layout.align() <= 4096 {
            let got = CACHED
                .try_with(|c| {
                    let (p, busy) = c.get();
                    if busy {
                        return std::ptr::null_mut();
                    }
                    let p = if p.is_null() { System.alloc(Layout::from_size_align_unchecked(REGION, 4096)) } else { p };
                    if !p.is_null() {
                        c.set((p, true));
                    }
                    p
                })
                .unwrap_or(std::ptr::null_mut());
            if !got.is_null() {
                return got;
            }
        }
        System.alloc(layout)
    }
    unsafe fn dealloc(&self, ptr: *mut u8, layout: Layout) {
        let mine = CACHED
            .try_with(|c| {
                let (p, busy) = c.get();
                if busy && p == ptr {
                    c.set((p, false));
                    true
                } else {
                    false
                }
            })
            .unwrap_or(false);
        if !mine {
            System.dealloc(ptr, layout)
        }
    }
    unsafe fn alloc_zeroed(&self, layout: Layout) -> *mut u8 {
        System.alloc_zeroed(layout)
    }
    unsafe fn realloc(&self, ptr: *mut u8, layout: Layout, new_size: usize) -> *mut u8 {
        let cached = CACHED.try_with(|c| c.get().0 == ptr && c.get().1).unwrap_or(false);
        if !cached && (layout.size() < BIG || new_size < BIG) {
            // a region handed to another thread is still a System allocation of REGION bytes
            return System.realloc(ptr, layout, new_size);
        }
        if cached && new_size <= REGION {
            return ptr;
        }
        let new_layout = Layout::from_size_align_unchecked(new_size, layout.align());
        let n = self.alloc(new_layout);
        if !n.is_null() {
            std::ptr::copy_nonoverlapping(ptr, n, layout.size().min(new_size));
            self.dealloc(ptr, layout);
        }
        n
    }
}
