//! History legs: the outcome of decoding / encoding one packet must not depend on what the same
//! thread decoded or encoded before. Baselines are computed on FRESH threads (fresh thread-local
//! state), then every ordered pair (i, j) of a mixed input list is run back to back on a worker
//! thread, the inputs being copied into one reused buffer so that they also share their address.
//! Any difference from the baseline is a history dependence (a cache, scratch buffer or flag that
//! survives between calls).

use crate::checks::pollmc::c08_alphabet;
use crate::checks::sweeps;
use crate::checks::values::u_tiny;
use crate::ev::{guard, hex, hex_short, Ctx};
use crate::fam::Fam;
use crate::front::{self, Out};
use mqtt_ref::mutate::{self, CatalogueStats};
use mqtt_ref::{enc, gen, Ast, Family};
use rayon::prelude::*;
use serde_json::json;

type Obs<F> = (Out<F>, Out<F>, usize, Out<F>, Option<(usize, usize)>, usize);

fn observe<F: Fam>(b: &[u8]) -> Obs<F> {
    let o1 = front::blocking::<F>(b);
    let (o2, u2) = front::async_whole::<F>(b);
    let (o3, tb, u3) = front::poll_slice::<F>(b);
    (o1, o2, u2, o3, tb, u3)
}

pub fn decode_inputs(fam: Family) -> Vec<Vec<u8>> {
    let mut v: Vec<Vec<u8>> = Vec::new();
    let tiny = u_tiny(fam);
    let frames = sweeps::frames_of(fam, &tiny);
    for f in frames.iter().step_by(2) {
        v.push(f.clone());
        // truncations: after every header byte and a few body positions
        for k in [1usize, 2, 3, f.len() / 2, f.len().saturating_sub(1)] {
            if k < f.len() {
                v.push(f[..k].to_vec());
            }
        }
    }
    // incomplete multi-byte remaining lengths, and the same control bytes with a complete short frame
    for c in sweeps::legal_controls(fam).into_iter().step_by(3) {
        v.push(vec![c, 0x80]);
        v.push(vec![c, 0xFF, 0xFF]);
        v.push(vec![c, 0x85, 0x01]);
    }
    // the confusable alphabet (equal control bytes, different sizes) and its truncations
    for a in c08_alphabet(fam) {
        if let Some(b) = enc::encode_bytes(fam, &a) {
            if b.len() > 3 {
                v.push(b[..b.len() - 1].to_vec());
            }
            v.push(b);
        }
    }
    // long strings (scratch buffers with high-water marks), then short ones again
    for a in gen::u_size(fam, &[1025, 4096, 65535], &[200, 16384]) {
        if let Some(b) = enc::encode_bytes(fam, &a) {
            if b.len() <= 140_000 {
                if b.len() > 40 {
                    v.push(b[..b.len() - 7].to_vec());
                }
                v.push(b);
            }
        }
    }
    // malformed frames (error paths that may leave state behind)
    let mut st = CatalogueStats::default();
    for a in tiny.iter().step_by(5) {
        for m in mutate::catalogue(fam, a, &mut st, true).into_iter().step_by(97) {
            v.push(m.bytes);
        }
    }
    v.sort();
    v.dedup();
    v
}

/// all ordered pairs of a decode history
pub fn decode_history<F: Fam>(ctx: &Ctx, prop: &str) {
    let inputs = decode_inputs(F::FAMILY);
    let n = inputs.len();
    // baselines on fresh threads
    let base: Vec<Obs<F>> = inputs
        .iter()
        .map(|b| {
            let b = b.clone();
            std::thread::spawn(move || observe::<F>(&b)).join().unwrap_or_else(|_| (Out::Stuck, Out::Stuck, 0, Out::Stuck, None, 0))
        })
        .collect();
    ctx.count(&format!("{}_history_inputs", F::NAME), n as u64);
    let maxlen = inputs.iter().map(|b| b.len()).max().unwrap_or(0);
    // big inputs only as predecessors / successors of small ones (keeps the pair count useful)
    let mut small: Vec<usize> = (0..n).filter(|i| inputs[*i].len() <= 64).collect();
    if small.len() > 640 && !ctx.thorough() {
        // keep neighbours (same control byte, different sizes) together: drop every other block of 8
        small = small.chunks(8).enumerate().filter(|(k, _)| k % (small.len() / 640 + 1) == 0).flat_map(|(_, c)| c.to_vec()).collect();
    }
    let big: Vec<usize> = (0..n).filter(|i| inputs[*i].len() > 64).collect();
    let pairs: Vec<(usize, usize)> = small
        .iter()
        .flat_map(|i| small.iter().map(move |j| (*i, *j)))
        .chain(big.iter().flat_map(|i| small.iter().step_by(3).flat_map(move |j| [(*i, *j), (*j, *i)])))
        .collect();
    ctx.count(&format!("{}_history_pairs", F::NAME), pairs.len() as u64);
    pairs.par_chunks(4096).for_each(|chunk| {
        // one reused buffer: every input of this chunk starts at the same address
        let mut buf: Vec<u8> = Vec::with_capacity(maxlen + 8);
        for (i, j) in chunk {
            for k in [*i, *j] {
                buf.clear();
                buf.extend_from_slice(&inputs[k]);
                let got = observe::<F>(&buf);
                ctx.eval(3);
                ctx.trans(3);
                ctx.trace(3);
                if got != base[k] {
                    let which = if got.0 != base[k].0 {
                        "blocking"
                    } else if got.1 != base[k].1 || got.2 != base[k].2 {
                        "async"
                    } else {
                        "poll"
                    };
                    ctx.violation(
                        format!("{prop}:{}:history:{which}", F::NAME),
                        format!(
                            "decoding {} right after {} on the same thread gives blocking {} / async {} / poll {}; on a fresh thread it gives {} / {} / {}",
                            hex_short(&inputs[k]),
                            hex_short(&inputs[if k == *j { *i } else { *j }]),
                            got.0.short(),
                            got.1.short(),
                            got.3.short(),
                            base[k].0.short(),
                            base[k].1.short(),
                            base[k].3.short()
                        ),
                        json!({"kind":"history","family":F::NAME,"first":hex(&inputs[*i]),"second":hex(&inputs[*j])}),
                    );
                    return;
                }
            }
        }
    });
    ctx.state(n as u64);
}

fn encode_values(fam: Family) -> Vec<Ast> {
    let mut v = c08_alphabet(fam);
    v.extend(u_tiny(fam).into_iter().step_by(2));
    // equal remaining length, different fixed-header flags
    for (dup, qos, retain) in [(false, 0u8, false), (true, 0, false), (false, 0, true), (true, 1, true), (false, 2, false), (true, 2, true)] {
        let (topic, pid): (&str, Option<u16>) = if qos == 0 { ("abc", None) } else { ("a", Some(9)) };
        v.push(Ast::Publish { dup, qos, retain, topic: topic.into(), pid, props: vec![], payload: vec![1, 2, 3] });
    }
    for t in [4u8, 5, 6, 7] {
        v.push(Ast::Ack { typ: t, pid: 0x1234, code: 0, props: vec![] });
    }
    v
}

/// all ordered pairs of an encode history (blocking encoder and streamed body)
pub fn encode_history<F: Fam>(ctx: &Ctx, prop: &str) {
    let vals: Vec<(Ast, F::Packet)> = encode_values(F::FAMILY).into_iter().filter_map(|a| guard(|| F::from_ast(&a)).ok().flatten().map(|p| (a, p))).collect();
    let enc_of = |p: &F::Packet| -> (Option<Vec<u8>>, Option<Vec<u8>>) {
        let e = guard(|| F::encode(p)).ok().and_then(|r| r.ok()).map(|b| b.as_ref().to_vec());
        let mut body = Vec::new();
        let b = guard(|| F::body(p, &mut body).map(|x| x.2.is_ok())).ok().flatten();
        (e, if b == Some(true) { Some(body) } else { None })
    };
    let base: Vec<(Option<Vec<u8>>, Option<Vec<u8>>)> = vals
        .iter()
        .map(|(_, p)| {
            let p = p.clone();
            std::thread::spawn(move || {
                let e = guard(|| F::encode(&p)).ok().and_then(|r| r.ok()).map(|b| b.as_ref().to_vec());
                let mut body = Vec::new();
                let b = guard(|| F::body(&p, &mut body).map(|x| x.2.is_ok())).ok().flatten();
                (e, if b == Some(true) { Some(body) } else { None })
            })
            .join()
            .unwrap_or((None, None))
        })
        .collect();
    let n = vals.len();
    ctx.count(&format!("{}_encode_history_values", F::NAME), n as u64);
    let pairs: Vec<(usize, usize)> = (0..n).flat_map(|i| (0..n).map(move |j| (i, j))).collect();
    pairs.par_chunks(1024).for_each(|chunk| {
        for (i, j) in chunk {
            for k in [*i, *j] {
                let got = enc_of(&vals[k].1);
                ctx.eval(1);
                ctx.trans(2);
                ctx.trace(1);
                if got != base[k] {
                    ctx.violation(
                        format!("{prop}:{}:history:encode", F::NAME),
                        format!(
                            "encoding {} right after {} on the same thread emits {:?}; on a fresh thread {:?}",
                            crate::checks::values::short_debug(&vals[k].0),
                            crate::checks::values::short_debug(&vals[if k == *j { *i } else { *j }].0),
                            got.0.as_ref().map(|b| hex_short(b)),
                            base[k].0.as_ref().map(|b| hex_short(b))
                        ),
                        json!({"kind":"encode-history","family":F::NAME,"first":crate::astjson::to_json(&vals[*i].0),"second":crate::astjson::to_json(&vals[*j].0)}),
                    );
                    return;
                }
            }
        }
    });
}
