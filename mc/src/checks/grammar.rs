//! C04 (acceptance = grammar, values = specification) and C20 (documented error per malformation):
//! the strict poll decoder against the reference decoder `mqtt_ref::dec`.

use crate::checks::bytes::{case_bytes, spellings};
use crate::checks::sweeps;
use crate::checks::values::{scope_of, u_small, u_tiny, B16};
use crate::ev::{hex, hex_short, Ctx};
use crate::fam::{Fam, V3, V5};
use crate::front::{self, Out};
use mqtt_ref::dec::{self, Verdict, Viol};
use mqtt_ref::enc::{self, Form, Spell};
use mqtt_ref::gen;
use mqtt_ref::mutate::{self, CatalogueStats};
use rayon::prelude::*;
use serde_json::json;
use std::sync::atomic::{AtomicU64, Ordering::Relaxed};

fn viol_name(v: &Viol) -> String {
    let s = format!("{:?}", v);
    s.split(|c| c == '(' || c == ' ').next().unwrap_or("?").to_string()
}

pub struct G {
    pub accept: AtomicU64,
    pub lenient: AtomicU64,
    pub reject: AtomicU64,
    pub out_of_domain: AtomicU64,
    pub not_frame: AtomicU64,
}

pub fn c04_frame<F: Fam>(ctx: &Ctx, g: &G, b: &[u8]) {
    let verdict = dec::decode(F::FAMILY, b);
    match &verdict {
        Verdict::NotOneFrame => {
            g.not_frame.fetch_add(1, Relaxed);
            return;
        }
        Verdict::OutOfDomain => {
            g.out_of_domain.fetch_add(1, Relaxed);
            return;
        }
        _ => {}
    }
    let (op, tb, used) = front::poll_slice::<F>(b);
    ctx.eval(1);
    ctx.trans(1);
    ctx.trace(1);
    match verdict {
        Verdict::Accept { ast, lenient } => {
            let strict = lenient.is_empty();
            if strict {
                g.accept.fetch_add(1, Relaxed);
            } else {
                g.lenient.fetch_add(1, Relaxed);
            }
            match &op {
                Out::Pkt(p) => {
                    match crate::ev::guard(|| F::from_ast(&ast)).ok().flatten() {
                        Some(q) => {
                            if *p != q {
                                ctx.violation(
                                    format!("C04:{}:wrong-value:type{}", F::NAME, ast.ptype()),
                                    format!("frame {} is accepted as {} but the specification assigns it the values {}", hex_short(b), op.short(), Out::<F>::Pkt(q).short()),
                                    case_bytes::<F>(b),
                                );
                            }
                        }
                        None => {
                            if strict {
                                ctx.violation(
                                    format!("C04:{}:unrepresentable:type{}", F::NAME, ast.ptype()),
                                    format!("frame {} is accepted as {} but the reference value {} cannot be built from the crate's types", hex_short(b), op.short(), crate::checks::values::short_debug(&ast)),
                                    case_bytes::<F>(b),
                                );
                            }
                        }
                    }
                    if tb.map(|x| x.0) != Some(b.len()) || used != b.len() {
                        ctx.violation(
                            format!("C04:{}:accepted-with-wrong-size:type{}", F::NAME, ast.ptype()),
                            format!("frame {} ({} bytes) accepted with total {:?}, consumed {used}", hex_short(b), b.len(), tb),
                            case_bytes::<F>(b),
                        );
                    }
                }
                Out::Panic(_) | Out::Stuck => {} // C03
                other => {
                    if strict {
                        ctx.violation(
                            format!("C04:{}:spurious-reject:type{}", F::NAME, ast.ptype()),
                            format!("well-formed frame {} ({}) is rejected: {}", hex_short(b), crate::checks::values::short_debug(&ast), other.short()),
                            case_bytes::<F>(b),
                        );
                    }
                }
            }
        }
        Verdict::Reject(v) => {
            g.reject.fetch_add(1, Relaxed);
            if let Out::Pkt(_) = &op {
                ctx.violation(
                    format!("C04:{}:spurious-accept:{}", F::NAME, viol_name(&v)),
                    format!("malformed frame {} ({:?}) is accepted as {}", hex_short(b), v, op.short()),
                    case_bytes::<F>(b),
                );
            }
        }
        _ => {}
    }
}

pub fn c04(ctx: &Ctx) {
    ctx.set_rule("complete frames with minimally encoded integers, strict poll decoder vs the reference decoder: all frames with remaining length <= 2 (thorough 3) for all 256 control bytes, all bodies over B16 up to 4 (6) bytes for the legal control bytes; the reference encoding of U_val and U_field (every value slot of every packet type over its atom catalogue) in every legal spelling (short/long forms, permuted properties); the malformation catalogue over U_small, the full packets of U_field and the relation hosts with one fault, and with one fault plus one byte substitution over B16; N1 (thorough: N2) re-framed. Accept <=> the reference accepts; on accept the packet equals the reference value mapped by variant name and the reported size is exact; pinned leniencies (DESIGN 4.1) tolerated either way. Non-trivial = frames the reference accepts or rejects past the header");
    fn fam<F: Fam>(ctx: &Ctx) {
        let f = F::FAMILY;
        let g = G { accept: AtomicU64::new(0), lenient: AtomicU64::new(0), reject: AtomicU64::new(0), out_of_domain: AtomicU64::new(0), not_frame: AtomicU64::new(0) };
        let (_, full_r, b16a, b16b) = sweeps::tier_params(ctx);
        let n = sweeps::u_frame(f, full_r, b16a, b16b, &|b| c04_frame::<F>(ctx, &g, b));
        ctx.count(&format!("{}_U_frame", F::NAME), n);
        // grammar-generated well-formed frames in every spelling
        let mut u = gen::u_val(f, &scope_of(ctx));
        let n_uval = u.len();
        // the field-value universe (every slot of every packet type over its atom catalogue, DESIGN 0.8)
        u.extend(mqtt_ref::genfield::u_field(f, ctx.thorough()).0);
        ctx.count(&format!("{}_U_field", F::NAME), (u.len() - n_uval) as u64);
        let n_sp = AtomicU64::new(0);
        u.par_iter().for_each(|a| {
            for form in [Form::Canon, Form::CodeOnly, Form::Full] {
                if let Some(fr) = enc::encode(f, a, Spell { form, ..Default::default() }) {
                    if let Some(b) = fr.bytes() {
                        if b.len() < 200_000 {
                            c04_frame::<F>(ctx, &g, &b);
                            n_sp.fetch_add(1, Relaxed);
                        }
                    }
                }
            }
        });
        ctx.count(&format!("{}_wellformed_spellings_of_U_val_and_U_field", F::NAME), n_sp.load(Relaxed));
        let sp = spellings(f);
        sp.par_iter().for_each(|b| c04_frame::<F>(ctx, &g, b));
        ctx.count(&format!("{}_U_spell", F::NAME), sp.len() as u64);
        // single faults, and single fault + one substitution
        let mut stats = CatalogueStats::default();
        let mut mal: Vec<Vec<u8>> = Vec::new();
        for a in u_tiny(f).iter().chain(u_small(f).iter()).chain(mqtt_ref::genfield::bases(f).iter()).chain(mqtt_ref::genfield::relation_hosts(f).iter()) {
            for m in mutate::catalogue(f, a, &mut stats, true) {
                mal.push(m.bytes);
            }
        }
        mal.sort();
        mal.dedup();
        ctx.count(&format!("{}_U_mal", F::NAME), mal.len() as u64);
        mal.par_iter().for_each(|b| c04_frame::<F>(ctx, &g, b));
        let step = if ctx.thorough() { 7 } else { 61 };
        let n2 = AtomicU64::new(0);
        mal.par_iter().step_by(step).for_each(|b| {
            if b.len() > 64 {
                return;
            }
            let hl = dec::header(b).map(|h| h.2).unwrap_or(2);
            let mut buf = b.clone();
            for i in hl..b.len() {
                for v in B16 {
                    if v != b[i] {
                        buf[i] = v;
                        c04_frame::<F>(ctx, &g, &buf);
                        n2.fetch_add(1, Relaxed);
                    }
                }
                buf[i] = b[i];
            }
        });
        ctx.count(&format!("{}_U_mal_plus_substitution", F::NAME), n2.load(Relaxed));
        // byte-level neighbourhoods (complete frames only are judged)
        let frames = sweeps::small_frames(f, if ctx.thorough() { 40 } else { 24 });
        let n1 = AtomicU64::new(0);
        frames.par_iter().for_each(|fr| {
            let k = sweeps::n1(fr, &mut |b| c04_frame::<F>(ctx, &g, b));
            n1.fetch_add(k, Relaxed);
            if ctx.thorough() && fr.len() <= 12 {
                let k = sweeps::n2(fr, &mut |b| c04_frame::<F>(ctx, &g, b));
                n1.fetch_add(k, Relaxed);
            }
        });
        ctx.count(&format!("{}_N1_N2", F::NAME), n1.load(Relaxed));
        ctx.count(&format!("{}_ref_accept", F::NAME), g.accept.load(Relaxed));
        ctx.count(&format!("{}_ref_accept_lenient", F::NAME), g.lenient.load(Relaxed));
        ctx.count(&format!("{}_ref_reject", F::NAME), g.reject.load(Relaxed));
        ctx.count(&format!("{}_out_of_domain_skipped", F::NAME), g.out_of_domain.load(Relaxed));
        ctx.count(&format!("{}_not_one_frame_skipped", F::NAME), g.not_frame.load(Relaxed));
        ctx.nontriv(g.accept.load(Relaxed) + g.lenient.load(Relaxed));
        ctx.state(g.accept.load(Relaxed) + g.lenient.load(Relaxed) + g.reject.load(Relaxed));
        // self-check of the oracle on this run: the reference encoder and decoder agree on U_small
        for a in u_small(f) {
            if let Some(b) = enc::encode_bytes(f, &a) {
                match dec::decode(f, &b) {
                    Verdict::Accept { ast, .. } if ast == a => {}
                    other => {
                        ctx.info("machinery_error", json!(format!("reference self-check failed on {:?}: {:?}", a, other)));
                    }
                }
            }
        }
    }
    fam::<V3>(ctx);
    fam::<V5>(ctx);
    ctx.sample(json!({"frame": "c0 01 00", "reference": "Reject(BodylessNonZeroLen)", "expect": "error"}));
    ctx.sample(json!({"frame": "20 06 00 00 03 24 01 24 (duplicate Maximum QoS)", "reference": "Reject(DupProp(0x24))"}));
    ctx.sample(json!({"frame": "40 04 00 01 00 00 (PUBACK long form)", "reference": "Accept(Ack{pid 1, code 0})"}));
    ctx.assume("trusted: the reference grammar in /verif/refmodel/src/dec.rs with the leniency table of DESIGN.md 4.1; it is self-checked against the reference encoder on every run");
}

// ---------------------------------------------------------------------------------------------
// C20

pub fn c20_one<F: Fam>(ctx: &Ctx, m: &mutate::Mal) {
    let expect = match F::expect_err(&m.expect) {
        Some(e) => e,
        None => {
            ctx.info("machinery_error", json!(format!("no documented error mapped for {:?}", m.expect)));
            return;
        }
    };
    let b = &m.bytes;
    let (op, _, _) = front::poll_slice::<F>(b);
    let ob = front::blocking::<F>(b);
    let (oa, _) = front::async_whole::<F>(b);
    ctx.eval(3);
    ctx.trans(3);
    ctx.trace(3);
    let want: Out<F> = Out::Err(expect.clone());
    let case = json!({"kind":"bytes","family":F::NAME,"bytes":hex(b),"malformation":m.kind,"site":m.site,"expect":format!("{:?}", expect)});
    if op != want {
        ctx.violation(
            format!("C20:{}:{}:poll", F::NAME, m.kind),
            format!("{} at {}: frame {} -> poll decoder {}, documented error {:?}", m.kind, m.site, hex_short(b), op.short(), expect),
            case.clone(),
        );
    }
    match m.expect {
        Viol::Truncated => {
            // an inner length past the end of the frame: "incomplete" for the slice decoders
            // (a remaining-length error is the same classification and is tolerated)
            let ok = |o: &Out<F>| *o == Out::Incomplete || *o == want;
            if !ok(&ob) || !ok(&oa) {
                ctx.violation(
                    format!("C20:{}:{}:blocking", F::NAME, m.kind),
                    format!("{} at {}: frame {} -> blocking {} / async {}, expected incomplete", m.kind, m.site, hex_short(b), ob.short(), oa.short()),
                    case,
                );
            }
        }
        Viol::Trailing => {}
        _ => {
            if ob != want || oa != want {
                ctx.violation(
                    format!("C20:{}:{}:blocking-async", F::NAME, m.kind),
                    format!("{} at {}: frame {} -> blocking {} / async {}, documented error {:?}", m.kind, m.site, hex_short(b), ob.short(), oa.short(), expect),
                    case,
                );
            }
        }
    }
}

pub fn c20(ctx: &Ctx) {
    ctx.set_rule("every value of U_small, U_tiny and the full packets of U_field (every optional field and property present) and the relation hosts (repeated user-property names with values of different lengths, equal and differently long neighbouring filters, repeated codes, equal content in several fields) x every site x every row of the single-fault catalogue (DESIGN.md 4.2); a candidate is kept only if the reference decoder reports exactly the intended violation; the three front-ends must return the documented variant with its payload (inner length past the frame: InvalidRemainingLength for poll, incomplete for blocking/async; trailing bytes: poll only). Non-trivial = catalogue members; distinct = distinct frames");
    fn fam<F: Fam>(ctx: &Ctx) {
        let f = F::FAMILY;
        // U_tiny, U_small, and the full packets of U_field (every optional field and property present: every site exists)
        let hosts: Vec<_> = u_tiny(f).into_iter().chain(u_small(f)).chain(mqtt_ref::genfield::bases(f)).chain(mqtt_ref::genfield::relation_hosts(f)).collect();
        let thin = !ctx.thorough();
        let parts: Vec<(Vec<mutate::Mal>, CatalogueStats)> = hosts
            .par_iter()
            .enumerate()
            .map(|(i, a)| {
                let mut st = CatalogueStats::default();
                // the first hosts (U_tiny: one per packet type and form) always get the full byte ranges
                let m = mutate::catalogue(f, a, &mut st, thin && i >= 40);
                (m, st)
            })
            .collect();
        let mut stats = CatalogueStats::default();
        let mut all: Vec<mutate::Mal> = Vec::new();
        for (m, st) in parts {
            all.extend(m);
            stats.candidates += st.candidates;
            stats.kept += st.kept;
            stats.dropped += st.dropped;
        }
        let mut kinds: std::collections::BTreeMap<&'static str, u64> = Default::default();
        for m in &all {
            *kinds.entry(m.kind).or_insert(0) += 1;
        }
        ctx.info(&format!("{}_catalogue_rows", F::NAME), json!(kinds));
        ctx.count(&format!("{}_hosts", F::NAME), hosts.len() as u64);
        ctx.count(&format!("{}_candidates", F::NAME), stats.candidates as u64);
        ctx.count(&format!("{}_kept", F::NAME), stats.kept as u64);
        ctx.count(&format!("{}_dropped_not_applicable", F::NAME), stats.dropped as u64);
        all.par_iter().for_each(|m| c20_one::<F>(ctx, m));
        let mut distinct: Vec<&Vec<u8>> = all.iter().map(|m| &m.bytes).collect();
        distinct.sort();
        distinct.dedup();
        ctx.nontriv(distinct.len() as u64);
        ctx.state(distinct.len() as u64);
        for m in all.iter().step_by((all.len() / 3).max(1)).take(3) {
            ctx.sample(json!({"family": F::NAME, "malformation": m.kind, "site": m.site, "frame": hex_short(&m.bytes), "expect": format!("{:?}", m.expect)}));
        }
        // every catalogue row must have members
        let required: &[&str] = if f == mqtt_ref::Family::V5 {
            &["header-flags", "header-publish-qos3", "header-type", "remaining-length-5-bytes", "zero-pid", "non-utf8-string", "wildcard-in-topic-name", "wildcard-in-response-topic", "invalid-topic-filter", "utf8-flagged-payload-not-utf8", "reason-code-not-in-table", "connack-flags", "connect-reserved-flag", "will-qos-3", "will-qos-without-will", "subscription-option-bits", "unknown-property-id", "byte-property-out-of-range", "property-varint-5-bytes", "property-not-allowed-here", "duplicated-property", "property-length-too-short", "property-length-5-bytes", "empty-subscription", "protocol-name-level", "remaining-length-too-small", "remaining-length-too-large", "inner-length-past-frame"]
        } else {
            &["header-flags", "header-publish-qos3", "header-type", "remaining-length-5-bytes", "zero-pid", "non-utf8-string", "wildcard-in-topic-name", "invalid-topic-filter", "v3-connack-code", "v3-suback-code", "connack-flags", "connect-reserved-flag", "will-qos-3", "will-qos-without-will", "v3-subscribe-qos", "empty-subscription", "protocol-name-level", "remaining-length-too-small", "remaining-length-too-large", "inner-length-past-frame"]
        };
        for r in required {
            if !kinds.contains_key(r) {
                ctx.info("machinery_error", json!(format!("catalogue row {r} has no members for {}", F::NAME)));
            }
        }
    }
    fam::<V3>(ctx);
    fam::<V5>(ctx);
}
