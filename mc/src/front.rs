//! Uniform access to the three decoder front-ends and the encoder entry points, with the
//! monitors of DESIGN.md 3.6 (panic, budget, frame bound, Pending propagation, init coverage).

use crate::env::{drive, noop_waker, ReadLog, ScriptedReader, RA};
use crate::ev::{guard, last_panic_loc};
use crate::fam::Fam;
use mqtt_proto::{GenericPollPacket, GenericPollPacketState};
use std::future::Future;
use std::mem::MaybeUninit;
use std::pin::Pin;
use std::task::{Context, Poll};
use tokio::io::{AsyncRead, ReadBuf};

pub enum Out<F: Fam> {
    Pkt(F::Packet),
    Incomplete,
    Err(F::Error),
    Panic(String),
    /// the future stayed pending although the transport had nothing more to say (or budget ran out)
    Stuck,
}

impl<F: Fam> Clone for Out<F> {
    fn clone(&self) -> Self {
        match self {
            Out::Pkt(p) => Out::Pkt(p.clone()),
            Out::Incomplete => Out::Incomplete,
            Out::Err(e) => Out::Err(e.clone()),
            Out::Panic(m) => Out::Panic(m.clone()),
            Out::Stuck => Out::Stuck,
        }
    }
}

impl<F: Fam> PartialEq for Out<F> {
    fn eq(&self, o: &Self) -> bool {
        match (self, o) {
            (Out::Pkt(a), Out::Pkt(b)) => a == b,
            (Out::Incomplete, Out::Incomplete) => true,
            (Out::Err(a), Out::Err(b)) => a == b,
            (Out::Panic(a), Out::Panic(b)) => a == b,
            (Out::Stuck, Out::Stuck) => true,
            _ => false,
        }
    }
}

impl<F: Fam> std::fmt::Debug for Out<F> {
    fn fmt(&self, f: &mut std::fmt::Formatter<'_>) -> std::fmt::Result {
        write!(f, "{}", self.short())
    }
}

impl<F: Fam> Out<F> {
    /// Short rendering for messages. A packet or error that holds text which is not UTF-8 (a defect some
    /// checks look for) can make `Debug` panic or emit ill-formed text: both are absorbed here.
    pub fn short(&self) -> String {
        match crate::ev::guard(|| self.short_raw()) {
            Ok(s) => String::from_utf8_lossy(s.as_bytes()).into_owned(),
            Err(_) => match self {
                Out::Pkt(_) => "Pkt(<Debug formatting panics: the packet holds text that is not UTF-8>)".into(),
                Out::Err(_) => "Err(<Debug formatting panics: the error holds text that is not UTF-8>)".into(),
                _ => "<unprintable>".into(),
            },
        }
    }
    fn short_raw(&self) -> String {
        match self {
            Out::Pkt(p) => {
                let s = format!("{:?}", p);
                if s.len() > 300 {
                    format!("Pkt({}…)", &s[..s.char_indices().take(300).last().map(|x| x.0).unwrap_or(0)])
                } else {
                    format!("Pkt({s})")
                }
            }
            Out::Incomplete => "Incomplete".into(),
            Out::Err(e) => format!("Err({:?})", e),
            Out::Panic(m) => format!("Panic({m})"),
            Out::Stuck => "Stuck".into(),
        }
    }
    pub fn is_pkt(&self) -> bool {
        matches!(self, Out::Pkt(_))
    }
    pub fn is_panic(&self) -> bool {
        matches!(self, Out::Panic(_))
    }
}

fn panic_out<F: Fam>(m: String) -> Out<F> {
    Out::Panic(format!("{m} @ {}", last_panic_loc()))
}

pub fn blocking<F: Fam>(b: &[u8]) -> Out<F> {
    match guard(|| F::decode(b)) {
        Ok(Ok(Some(p))) => Out::Pkt(p),
        Ok(Ok(None)) => Out::Incomplete,
        Ok(Err(e)) => Out::Err(e),
        Err(m) => panic_out(m),
    }
}

fn map_async<F: Fam>(r: Result<F::Packet, F::Error>) -> Out<F> {
    match r {
        Ok(p) => Out::Pkt(p),
        Err(e) if F::is_eof(&e) => Out::Incomplete,
        Err(e) => Out::Err(e),
    }
}

/// async decoder on an always-ready slice: (outcome, bytes consumed)
pub fn async_whole<F: Fam>(b: &[u8]) -> (Out<F>, usize) {
    let mut rd = BudgetSlice { data: b, pos: 0, calls: 0 };
    let r = guard(|| crate::env::run_ready(F::decode_async(&mut rd)));
    let used = rd.pos;
    match r {
        Ok(Some(r)) => (map_async::<F>(r), used),
        Ok(None) => (Out::Stuck, used),
        Err(m) => (stuck_or_panic(m), used),
    }
}

/// raw async result (errors not mapped) under a scripted transport
pub struct AsyncRun<F: Fam> {
    pub raw: Option<Result<F::Packet, F::Error>>,
    pub panic: Option<String>,
    pub consumed: usize,
    pub log: ReadLog,
    pub spurious_pending: bool,
    pub swallowed_pending: bool,
}

impl<F: Fam> AsyncRun<F> {
    pub fn out(&self) -> Out<F> {
        if let Some(m) = &self.panic {
            return Out::Panic(m.clone());
        }
        match &self.raw {
            Some(r) => map_async::<F>(r.clone()),
            None => Out::Stuck,
        }
    }
}

pub fn async_scripted<F: Fam>(b: &[u8], script: Vec<RA>, after: RA) -> AsyncRun<F> {
    let mut rd = ScriptedReader::new(b, script, after);
    let mut spurious = false;
    let mut swallowed = false;
    let r = guard(|| {
        let rdp: *const ScriptedReader = &rd;
        let fut = F::decode_async(&mut rd);
        let mut fut = std::pin::pin!(fut);
        // the reader is only read (its pending counter) between polls
        let d = drive(fut.as_mut(), b.len() * 2 + 64, || unsafe { (*rdp).log.pendings }, &mut spurious, &mut swallowed);
        d.out
    });
    let (raw, panic) = match r {
        Ok(x) => (x, None),
        Err(m) => (None, Some(format!("{m} @ {}", last_panic_loc()))),
    };
    AsyncRun { raw, panic, consumed: rd.pos, log: rd.log.clone(), spurious_pending: spurious, swallowed_pending: swallowed }
}

/// A transport that makes the stream available in segments: a read returns at most what is left of
/// the current segment; at a segment boundary it answers `Pending` once (if `pending_between`) and
/// then opens the next segment. After the last segment: EOF.
pub struct ChunkedReader<'a> {
    pub data: &'a [u8],
    pub pos: usize,
    /// ascending end offsets of the segments, last = data.len()
    pub ends: Vec<usize>,
    pub seg: usize,
    pub pending_between: bool,
    signalled: bool,
    pub log: ReadLog,
    pub frame_end: usize,
    /// answer instead of EOF at the end of the data
    pub at_end: RA,
}

impl<'a> ChunkedReader<'a> {
    pub fn new(data: &'a [u8], cuts: &[usize], pending_between: bool) -> Self {
        let mut ends: Vec<usize> = cuts.iter().copied().filter(|c| *c > 0 && *c < data.len()).collect();
        ends.sort();
        ends.dedup();
        ends.push(data.len());
        ChunkedReader { data, pos: 0, ends, seg: 0, pending_between, signalled: false, log: ReadLog::default(), frame_end: usize::MAX, at_end: RA::Eof }
    }
}

impl<'a> AsyncRead for ChunkedReader<'a> {
    fn poll_read(mut self: Pin<&mut Self>, _cx: &mut Context<'_>, buf: &mut ReadBuf<'_>) -> Poll<std::io::Result<()>> {
        let me = &mut *self;
        me.log.calls += 1;
        if me.log.calls > me.data.len() * 3 + 64 {
            me.log.budget_exhausted = true;
            panic!("VERIF-BUDGET: transport polled {} times", me.log.calls);
        }
        let cap = buf.remaining();
        if me.frame_end != usize::MAX {
            let left = me.frame_end.saturating_sub(me.pos);
            if cap > left && me.log.over_ask.map_or(true, |(c, _)| cap > c) {
                me.log.over_ask = Some((cap, left));
            }
        }
        while me.seg < me.ends.len() && me.pos >= me.ends[me.seg] {
            if me.seg + 1 >= me.ends.len() {
                break;
            }
            if me.pending_between && !me.signalled {
                me.signalled = true;
                me.log.pendings += 1;
                return Poll::Pending;
            }
            me.signalled = false;
            me.seg += 1;
        }
        if me.pos >= me.data.len() {
            return match me.at_end {
                RA::Pending => {
                    me.log.pendings += 1;
                    Poll::Pending
                }
                RA::Err(k) => Poll::Ready(Err(std::io::Error::new(k, "injected"))),
                _ => Poll::Ready(Ok(())),
            };
        }
        let n = cap.min(me.ends[me.seg] - me.pos);
        let dst = unsafe { buf.unfilled_mut().as_ptr() as usize };
        buf.put_slice(&me.data[me.pos..me.pos + n]);
        me.pos += n;
        me.log.reads.push((cap, n, dst));
        Poll::Ready(Ok(()))
    }
}

pub fn async_chunked<F: Fam>(b: &[u8], cuts: &[usize], pending_between: bool) -> AsyncRun<F> {
    let mut rd = ChunkedReader::new(b, cuts, pending_between);
    let mut spurious = false;
    let mut swallowed = false;
    let r = guard(|| {
        let rdp: *const ChunkedReader = &rd;
        let fut = F::decode_async(&mut rd);
        let mut fut = std::pin::pin!(fut);
        let d = drive(fut.as_mut(), b.len() * 2 + 64, || unsafe { (*rdp).log.pendings }, &mut spurious, &mut swallowed);
        d.out
    });
    let (raw, panic) = match r {
        Ok(x) => (x, None),
        Err(m) => (None, Some(format!("{m} @ {}", last_panic_loc()))),
    };
    AsyncRun { raw, panic, consumed: rd.pos, log: rd.log.clone(), spurious_pending: spurious, swallowed_pending: swallowed }
}

// ---------------------------------------------------------------------------------------------
// poll decoder

pub struct PollRun<F: Fam> {
    pub raw: Option<Result<(usize, Vec<u8>, F::Packet), F::Error>>,
    pub panic: Option<String>,
    pub consumed: usize,
    pub log: ReadLog,
    pub spurious_pending: bool,
    pub swallowed_pending: bool,
    /// the returned body buffer contained bytes no read ever wrote
    pub uninit_exposed: bool,
    pub polls: usize,
}

impl<F: Fam> PollRun<F> {
    pub fn out(&self) -> Out<F> {
        if let Some(m) = &self.panic {
            return Out::Panic(m.clone());
        }
        match &self.raw {
            Some(Ok((_, _, p))) => Out::Pkt(p.clone()),
            Some(Err(e)) if F::is_eof(e) => Out::Incomplete,
            Some(Err(e)) => Out::Err(e.clone()),
            None => Out::Stuck,
        }
    }
    pub fn total(&self) -> Option<usize> {
        match &self.raw {
            Some(Ok((t, _, _))) => Some(*t),
            _ => None,
        }
    }
    pub fn body(&self) -> Option<&[u8]> {
        match &self.raw {
            Some(Ok((_, b, _))) => Some(b),
            _ => None,
        }
    }
}

/// Union of the address ranges written by the transport covers `[ptr, ptr+len)`.
pub fn covered(reads: &[(usize, usize, usize)], ptr: usize, len: usize, already: usize) -> bool {
    if len == 0 {
        return true;
    }
    let mut r: Vec<(usize, usize)> = reads.iter().filter(|(_, n, d)| *n > 0 && *d >= ptr && *d < ptr + len).map(|(_, n, d)| (*d, *d + *n)).collect();
    r.sort();
    let mut at = ptr + already;
    for (a, b) in r {
        if a > at {
            return false;
        }
        at = at.max(b);
    }
    at >= ptr + len
}

/// Convert the body buffer handed back by the poll decoder, checking first that every byte of it
/// was written by the transport (otherwise it is not read at all).
pub fn take_body(buf: Vec<MaybeUninit<u8>>, reads: &[(usize, usize, usize)], already: usize, uninit: &mut bool) -> Vec<u8> {
    let ptr = buf.as_ptr() as usize;
    if !covered(reads, ptr, buf.len(), already) {
        *uninit = true;
        return Vec::new();
    }
    buf.iter().map(|b| unsafe { b.assume_init() }).collect()
}

/// Drive the poll decoder over a reader. `recreate`: drop the future and build a new one from the
/// caller-held state after every `Pending` (cancellation safety); otherwise keep one future object.
pub fn poll_over<F: Fam, R: AsyncRead + Unpin>(
    rd: &mut R,
    state: &mut GenericPollPacketState<F::Header>,
    recreate: bool,
    max_polls: usize,
    pendings: &dyn Fn(&R) -> usize,
    reads: &dyn Fn(&R) -> Vec<(usize, usize, usize)>,
) -> (Option<Result<(usize, Vec<u8>, F::Packet), F::Error>>, Option<String>, bool, bool, bool, usize) {
    let mut spurious = false;
    let mut swallowed = false;
    let mut uninit = false;
    let mut polls = 0usize;
    let w = noop_waker();
    let r = guard(|| {
        let mut cx = Context::from_waker(&w);
        if recreate {
            loop {
                let before = pendings(rd);
                polls += 1;
                let res = {
                    let mut fut = GenericPollPacket::new(&mut *state, &mut *rd);
                    Pin::new(&mut fut).poll(&mut cx)
                };
                match res {
                    Poll::Ready(v) => {
                        if pendings(rd) != before {
                            swallowed = true;
                        }
                        return Some(v);
                    }
                    Poll::Pending => {
                        if pendings(rd) == before {
                            spurious = true;
                        }
                        if polls >= max_polls {
                            return None;
                        }
                    }
                }
            }
        } else {
            let rdp: *const R = rd;
            let mut fut = GenericPollPacket::new(&mut *state, &mut *rd);
            loop {
                let before = pendings(unsafe { &*rdp });
                polls += 1;
                match Pin::new(&mut fut).poll(&mut cx) {
                    Poll::Ready(v) => {
                        if pendings(unsafe { &*rdp }) != before {
                            swallowed = true;
                        }
                        return Some(v);
                    }
                    Poll::Pending => {
                        if pendings(unsafe { &*rdp }) == before {
                            spurious = true;
                        }
                        if polls >= max_polls {
                            return None;
                        }
                    }
                }
            }
        }
    });
    match r {
        Ok(Some(Ok((t, buf, p)))) => {
            let rs = reads(rd);
            let body = take_body(buf, &rs, 0, &mut uninit);
            (Some(Ok((t, body, p))), None, spurious, swallowed, uninit, polls)
        }
        Ok(Some(Err(e))) => (Some(Err(e)), None, spurious, swallowed, uninit, polls),
        Ok(None) => (None, None, spurious, swallowed, uninit, polls),
        Err(m) => (None, Some(format!("{m} @ {}", last_panic_loc())), spurious, swallowed, uninit, polls),
    }
}

pub fn poll_scripted<F: Fam>(b: &[u8], script: Vec<RA>, after: RA, recreate: bool, frame_end: usize) -> PollRun<F> {
    let mut rd = ScriptedReader::new(b, script, after);
    rd.frame_end = frame_end;
    let mut st: GenericPollPacketState<F::Header> = Default::default();
    let (raw, panic, sp, sw, un, polls) =
        poll_over::<F, ScriptedReader>(&mut rd, &mut st, recreate, b.len() * 2 + 64, &|r| r.log.pendings, &|r| r.log.reads.clone());
    PollRun { raw, panic, consumed: rd.pos, log: rd.log.clone(), spurious_pending: sp, swallowed_pending: sw, uninit_exposed: un, polls }
}

pub fn poll_whole<F: Fam>(b: &[u8]) -> PollRun<F> {
    poll_scripted::<F>(b, vec![], RA::Deliver(usize::MAX), false, usize::MAX)
}

pub fn poll_chunked<F: Fam>(b: &[u8], cuts: &[usize], pending_between: bool, recreate: bool, frame_end: usize) -> PollRun<F> {
    let mut rd = ChunkedReader::new(b, cuts, pending_between);
    rd.frame_end = frame_end;
    let mut st: GenericPollPacketState<F::Header> = Default::default();
    let (raw, panic, sp, sw, un, polls) =
        poll_over::<F, ChunkedReader>(&mut rd, &mut st, recreate, b.len() * 2 + 64, &|r| r.log.pendings, &|r| r.log.reads.clone());
    PollRun { raw, panic, consumed: rd.pos, log: rd.log.clone(), spurious_pending: sp, swallowed_pending: sw, uninit_exposed: un, polls }
}

/// An always-ready slice transport with a call budget: a decoder that keeps reading at the end of
/// the input (a spin) is stopped instead of hanging the harness.
pub struct BudgetSlice<'a> {
    pub data: &'a [u8],
    pub pos: usize,
    pub calls: usize,
}

impl<'a> AsyncRead for BudgetSlice<'a> {
    fn poll_read(mut self: Pin<&mut Self>, _cx: &mut Context<'_>, buf: &mut ReadBuf<'_>) -> Poll<std::io::Result<()>> {
        let me = &mut *self;
        me.calls += 1;
        if me.calls > me.data.len() + 64 {
            panic!("VERIF-BUDGET: the decoder keeps reading after the end of the input ({} reads of a {}-byte input)", me.calls, me.data.len());
        }
        let n = buf.remaining().min(me.data.len() - me.pos);
        buf.put_slice(&me.data[me.pos..me.pos + n]);
        me.pos += n;
        Poll::Ready(Ok(()))
    }
}

fn stuck_or_panic<F: Fam>(m: String) -> Out<F> {
    if m.starts_with("VERIF-BUDGET") {
        Out::Stuck
    } else {
        panic_out(m)
    }
}

/// fast path used by the big sweeps: poll decoder on an always-ready slice, no logging
pub fn poll_slice<F: Fam>(b: &[u8]) -> (Out<F>, Option<(usize, usize)>, usize) {
    let mut rd = BudgetSlice { data: b, pos: 0, calls: 0 };
    let mut st: GenericPollPacketState<F::Header> = Default::default();
    let r = guard(|| crate::env::run_ready(GenericPollPacket::new(&mut st, &mut rd)));
    let used = rd.pos;
    match r {
        Ok(Some(Ok((t, buf, p)))) => (Out::Pkt(p), Some((t, buf.len())), used),
        Ok(Some(Err(e))) if F::is_eof(&e) => (Out::Incomplete, None, used),
        Ok(Some(Err(e))) => (Out::Err(e), None, used),
        Ok(None) => (Out::Stuck, None, used),
        Err(m) => (stuck_or_panic(m), None, used),
    }
}

/// all compositions of `n` as cut sets (2^(n-1) of them), `n <= 20`
pub fn all_cut_sets(n: usize) -> impl Iterator<Item = Vec<usize>> {
    let m = if n == 0 { 0 } else { n - 1 };
    (0u32..(1u32 << m)).map(move |mask| (0..m).filter(|i| mask & (1 << i) != 0).map(|i| i + 1).collect())
}

/// all cut sets with at most `d` cuts taken from `cands`
pub fn bounded_cut_sets(cands: &[usize], d: usize) -> Vec<Vec<usize>> {
    let mut out: Vec<Vec<usize>> = vec![vec![]];
    let mut cur: Vec<Vec<usize>> = vec![vec![]];
    for _ in 0..d {
        let mut next = Vec::new();
        for s in &cur {
            let start = s.last().map_or(0, |l| cands.iter().position(|c| c == l).unwrap() + 1);
            for c in &cands[start..] {
                let mut n = s.clone();
                n.push(*c);
                next.push(n);
            }
        }
        out.extend(next.iter().cloned());
        cur = next;
    }
    out
}

/// candidate cut positions for a frame of `n` bytes with a `hl`-byte header
pub fn cut_candidates(n: usize, hl: usize, all_below: usize) -> Vec<usize> {
    if n <= all_below {
        return (1..n).collect();
    }
    let mut c: Vec<usize> = vec![1, 2, 3, 4, 5, hl.saturating_sub(1), hl, hl + 1, hl + 2, hl + 3, n / 2, n - 3, n - 2, n - 1];
    c.retain(|x| *x >= 1 && *x < n);
    c.sort();
    c.dedup();
    c
}
