//! Deterministic generators of the value universes (DESIGN.md 3.2). Nothing here samples:
//! every universe is the complete product described by its `Scope`.

use crate::ast::ptype::*;
use crate::ast::*;
use crate::tables::{self, PType, PropDef};
use std::collections::HashSet;

#[derive(Clone, Debug)]
pub struct Scope {
    pub name: &'static str,
    pub text: Vec<&'static str>,
    pub bin: Vec<Vec<u8>>,
    pub u16s: Vec<u16>,
    pub u32s: Vec<u32>,
    pub varints: Vec<u32>,
    pub pids: Vec<u16>,
    pub up_atoms: Vec<(&'static str, &'static str)>,
    pub up_max: usize,
    pub topic_names: Vec<&'static str>,
    pub filters: Vec<&'static str>,
    /// (A) all 2^n presence subsets of every property set
    pub presence_subsets: bool,
    /// (D) all pairs of properties x all pairs of atoms
    pub pairs: bool,
    /// maximum length of topic / code lists that are enumerated as full products
    pub list_max: usize,
    /// all subscription-option combinations (else a boundary subset)
    pub all_options: bool,
}

impl Scope {
    /// the small-scope universe `U_val` of the quick tier
    pub fn quick() -> Scope {
        Scope {
            name: "quick",
            text: vec!["", "a", "é", "a/b", "€😀"],
            bin: vec![vec![], vec![0x00], vec![0xFF, 0x00, 0x80]],
            u16s: vec![0, 1, 0x0102, 0xFFFF],
            u32s: vec![0, 1, 0x0102_0304, 0xFFFF_FFFF],
            varints: vec![0, 127, 128, 16383, 16384, 2097151, 2097152, 268435455],
            pids: vec![1, 0x0100, 0x0201, 0xFFFF],
            up_atoms: vec![("a", "b"), ("a", "c"), ("", "")],
            up_max: 2,
            topic_names: vec!["", "a", "a/b", "/", "$SYS/x", "é"],
            filters: vec!["a", "#", "+", "a/+/b", "/", "$share/g/a", "$share/é/+/#"],
            presence_subsets: true,
            pairs: false,
            list_max: 3,
            all_options: true,
        }
    }
    /// the thorough universe adds control / non-character code points, longer user-property lists and (D)
    pub fn thorough() -> Scope {
        let mut s = Scope::quick();
        s.name = "thorough";
        s.text.push("\u{1}");
        s.text.push("\u{FFFF}");
        s.up_max = 3;
        s.pairs = true;
        s
    }
    /// `U_small`: every packet type in every encoder form with the shortest atoms (frames of a few bytes)
    pub fn small() -> Scope {
        Scope {
            name: "small",
            text: vec!["", "a", "é"],
            bin: vec![vec![], vec![0xFF]],
            u16s: vec![0, 0x0102],
            u32s: vec![0, 0x0102_0304],
            varints: vec![0, 127, 128, 268435455],
            pids: vec![1, 0x0201],
            up_atoms: vec![("a", "b"), ("", "")],
            up_max: 1,
            topic_names: vec!["", "a", "a/b"],
            filters: vec!["a", "#", "+/a", "$share/g/a"],
            presence_subsets: false,
            pairs: false,
            list_max: 2,
            all_options: false,
        }
    }
    /// `U_tiny`: one or two values per packet type and form
    pub fn tiny() -> Scope {
        Scope {
            name: "tiny",
            text: vec!["a"],
            bin: vec![vec![0xFF]],
            u16s: vec![0x0102],
            u32s: vec![0x0102_0304],
            varints: vec![128],
            pids: vec![0x0201],
            up_atoms: vec![("a", "b")],
            up_max: 1,
            topic_names: vec!["a"],
            filters: vec!["a", "$share/g/+"],
            presence_subsets: false,
            pairs: false,
            list_max: 1,
            all_options: false,
        }
    }
}

fn atoms(def: &PropDef, sc: &Scope) -> Vec<PVal> {
    match def.typ {
        PType::Byte => vec![PVal::Byte(0), PVal::Byte(1)],
        PType::U16 => sc.u16s.iter().map(|v| PVal::U16(*v)).collect(),
        PType::U32 => sc.u32s.iter().map(|v| PVal::U32(*v)).collect(),
        PType::VarInt => sc.varints.iter().map(|v| PVal::VarInt(*v)).collect(),
        PType::Str => {
            if def.id == tables::RESPONSE_TOPIC {
                sc.topic_names.iter().map(|s| PVal::Str(s.to_string())).collect()
            } else {
                sc.text.iter().map(|s| PVal::Str(s.to_string())).collect()
            }
        }
        PType::Bin => sc.bin.iter().map(|b| PVal::Bin(b.clone())).collect(),
        PType::Pair => vec![],
    }
}

fn base(def: &PropDef, sc: &Scope) -> PVal {
    let a = atoms(def, sc);
    // the second atom is the "interesting" one where there is a choice (first is usually zero/empty)
    a.get(1).cloned().unwrap_or_else(|| a[0].clone())
}

/// all user-property lists of length 0..=up_max over up_atoms (order and duplicates included)
pub fn up_lists(sc: &Scope) -> Vec<Props> {
    let mut out: Vec<Props> = vec![vec![]];
    let mut cur: Vec<Props> = vec![vec![]];
    for _ in 0..sc.up_max {
        let mut next = Vec::new();
        for l in &cur {
            for (k, v) in &sc.up_atoms {
                let mut n = l.clone();
                n.push(Prop { id: tables::USER_PROPERTY, val: PVal::Pair(k.to_string(), v.to_string()) });
                next.push(n);
            }
        }
        out.extend(next.iter().cloned());
        cur = next;
    }
    out
}

/// The universe of property sets of one owner (packet type or WILL). `utf8_payload_only`:
/// nothing to do here – the caller pairs sets that contain PFI=1 with UTF-8 payloads only.
pub fn prop_sets(owner: u8, sc: &Scope) -> Vec<Props> {
    let defs: Vec<&PropDef> = tables::props_of(owner).into_iter().filter(|d| d.id != tables::USER_PROPERTY).collect();
    let n = defs.len();
    let mut seen: HashSet<Props> = HashSet::new();
    let mut out: Vec<Props> = Vec::new();
    let mut push = |p: Props, out: &mut Vec<Props>| {
        if seen.insert(p.clone()) {
            out.push(p);
        }
    };
    let one_up: Props = up_lists(sc).into_iter().find(|l| l.len() == 1).unwrap_or_default();
    let all_present: Props = defs.iter().map(|d| Prop { id: d.id, val: base(d, sc) }).collect();
    push(vec![], &mut out);
    // each property alone, all together
    for d in &defs {
        push(vec![Prop { id: d.id, val: base(d, sc) }], &mut out);
    }
    push(all_present.clone(), &mut out);
    // (A) presence subsets
    if sc.presence_subsets {
        for mask in 0u32..(1u32 << n) {
            let set: Props =
                (0..n).filter(|i| mask & (1 << i) != 0).map(|i| Prop { id: defs[i].id, val: base(defs[i], sc) }).collect();
            let mut with_up = set.clone();
            with_up.extend(one_up.clone());
            push(set, &mut out);
            push(with_up, &mut out);
        }
    }
    // (B) every atom of every property, alone and with all others present
    for (i, d) in defs.iter().enumerate() {
        for a in atoms(d, sc) {
            push(vec![Prop { id: d.id, val: a.clone() }], &mut out);
            let mut all = all_present.clone();
            all[i].val = a;
            all.extend(one_up.clone());
            push(all, &mut out);
        }
    }
    // (C) user-property lists alone and behind all others
    for l in up_lists(sc) {
        push(l.clone(), &mut out);
        let mut all = all_present.clone();
        all.extend(l);
        push(all, &mut out);
    }
    // (D) all pairs of properties x all pairs of atoms
    if sc.pairs {
        for i in 0..n {
            for j in (i + 1)..n {
                for a in atoms(defs[i], sc) {
                    for b in atoms(defs[j], sc) {
                        push(vec![Prop { id: defs[i].id, val: a.clone() }, Prop { id: defs[j].id, val: b }], &mut out);
                    }
                }
            }
        }
        for d in &defs {
            for a in atoms(d, sc) {
                for l in up_lists(sc) {
                    let mut p = vec![Prop { id: d.id, val: a.clone() }];
                    p.extend(l);
                    push(p, &mut out);
                }
            }
        }
    }
    out
}

pub fn has_pfi_one(p: &Props) -> bool {
    p.iter().any(|x| x.id == tables::PAYLOAD_FORMAT_INDICATOR && x.val == PVal::Byte(1))
}

fn lists<T: Clone>(atoms: &[T], min: usize, max: usize) -> Vec<Vec<T>> {
    let mut out = Vec::new();
    let mut cur: Vec<Vec<T>> = vec![vec![]];
    if min == 0 {
        out.push(vec![]);
    }
    for len in 1..=max {
        let mut next = Vec::new();
        for l in &cur {
            for a in atoms {
                let mut n = l.clone();
                n.push(a.clone());
                next.push(n);
            }
        }
        if len >= min {
            out.extend(next.iter().cloned());
        }
        cur = next;
    }
    out
}

fn sub_options(v5: bool, sc: &Scope) -> Vec<u8> {
    if !v5 {
        return vec![0, 1, 2];
    }
    let mut out = Vec::new();
    for rh in 0..3u8 {
        for rap in 0..2u8 {
            for nl in 0..2u8 {
                for q in 0..3u8 {
                    let b = q | (nl << 2) | (rap << 3) | (rh << 4);
                    if sc.all_options || [0x00, 0x01, 0x02, 0x04, 0x08, 0x10, 0x20, 0x2E].contains(&b) {
                        out.push(b);
                    }
                }
            }
        }
    }
    out
}

/// Valid packet values of one packet type for one family.
pub fn values_of(family: Family, t: u8, sc: &Scope) -> Vec<Ast> {
    let v5 = family == Family::V5;
    let mut out: Vec<Ast> = Vec::new();
    let none: Vec<Props> = vec![vec![]];
    let psets = |owner: u8| -> Vec<Props> { if v5 { prop_sets(owner, sc) } else { none.clone() } };
    let pid0 = sc.pids[0];
    let utf8_payload: Vec<u8> = "é".as_bytes().to_vec();
    match t {
        CONNECT => {
            let levels: Vec<u8> = if v5 { vec![5] } else { vec![3, 4] };
            let s1 = sc.text.get(1).copied().unwrap_or(sc.text[0]).to_string();
            let b1 = sc.bin.get(1).cloned().unwrap_or_else(|| sc.bin[0].clone());
            let tn1 = sc.topic_names.get(1).copied().unwrap_or(sc.topic_names[0]).to_string();
            for level in levels {
                let basec = |clean: bool, will: Option<Will>, username: Option<String>, password: Option<Vec<u8>>| Ast::Connect {
                    level,
                    clean,
                    keep_alive: 0x0102,
                    props: vec![],
                    client_id: s1.clone(),
                    will,
                    username,
                    password,
                };
                let full_will = |qos: u8, retain: bool| Will { qos, retain, props: vec![], topic: tn1.clone(), payload: b1.clone() };
                // (C) full product of the flag group
                for clean in [false, true] {
                    let mut wills: Vec<Option<Will>> = vec![None];
                    for q in 0..3 {
                        for r in [false, true] {
                            wills.push(Some(full_will(q, r)));
                        }
                    }
                    for w in wills {
                        for u in [None, Some(s1.clone())] {
                            for p in [None, Some(b1.clone())] {
                                out.push(basec(clean, w.clone(), u.clone(), p));
                            }
                        }
                    }
                }
                // (B) every atom of every field, other optionals absent / present
                for present in [false, true] {
                    let w = if present { Some(full_will(1, false)) } else { None };
                    let u = if present { Some(s1.clone()) } else { None };
                    let p = if present { Some(b1.clone()) } else { None };
                    for ka in &sc.u16s {
                        if let Ast::Connect { keep_alive, .. } = &mut basec(true, w.clone(), u.clone(), p.clone()) {
                            *keep_alive = *ka;
                        }
                        let mut a = basec(true, w.clone(), u.clone(), p.clone());
                        if let Ast::Connect { keep_alive, .. } = &mut a {
                            *keep_alive = *ka;
                        }
                        out.push(a);
                    }
                    for s in &sc.text {
                        let mut a = basec(true, w.clone(), u.clone(), p.clone());
                        if let Ast::Connect { client_id, .. } = &mut a {
                            *client_id = s.to_string();
                        }
                        out.push(a);
                        out.push(basec(true, w.clone(), Some(s.to_string()), p.clone()));
                    }
                    for b in &sc.bin {
                        out.push(basec(true, w.clone(), u.clone(), Some(b.clone())));
                    }
                    for tn in &sc.topic_names {
                        let mut ww = full_will(2, true);
                        ww.topic = tn.to_string();
                        out.push(basec(false, Some(ww), u.clone(), p.clone()));
                    }
                    for b in &sc.bin {
                        let mut ww = full_will(0, true);
                        ww.payload = b.clone();
                        out.push(basec(false, Some(ww), u.clone(), p.clone()));
                    }
                }
                if v5 {
                    for ps in prop_sets(CONNECT, sc) {
                        for present in [false, true] {
                            let w = if present { Some(full_will(1, false)) } else { None };
                            let u = if present { Some(s1.clone()) } else { None };
                            let mut a = basec(true, w, u, None);
                            if let Ast::Connect { props, .. } = &mut a {
                                *props = ps.clone();
                            }
                            out.push(a);
                        }
                    }
                    for ps in prop_sets(WILL, sc) {
                        for present in [false, true] {
                            let mut ww = full_will(1, present);
                            ww.payload = utf8_payload.clone();
                            ww.props = ps.clone();
                            let u = if present { Some(s1.clone()) } else { None };
                            let p = if present { Some(b1.clone()) } else { None };
                            out.push(basec(present, Some(ww), u, p));
                        }
                    }
                }
            }
        }
        CONNACK => {
            let codes: Vec<u8> = if v5 { tables::reason_codes(CONNACK).to_vec() } else { tables::V3_CONNACK_CODES.to_vec() };
            for sp in [false, true] {
                for c in &codes {
                    out.push(Ast::Connack { session_present: sp, code: *c, props: vec![] });
                }
            }
            if v5 {
                for ps in prop_sets(CONNACK, sc) {
                    out.push(Ast::Connack { session_present: false, code: 0, props: ps.clone() });
                    if !sc.presence_subsets || ps.len() <= 3 {
                        out.push(Ast::Connack { session_present: true, code: 0x80, props: ps });
                    }
                }
            }
        }
        PUBLISH => {
            let tn1 = sc.topic_names.get(1).copied().unwrap_or(sc.topic_names[0]).to_string();
            let mut qp: Vec<(u8, Option<u16>)> = vec![(0, None)];
            for q in 1..=2u8 {
                for p in &sc.pids {
                    qp.push((q, Some(*p)));
                }
            }
            for dup in [false, true] {
                for retain in [false, true] {
                    for (q, p) in &qp {
                        for payload in [vec![], utf8_payload.clone()] {
                            out.push(Ast::Publish { dup, qos: *q, retain, topic: tn1.clone(), pid: *p, props: vec![], payload });
                        }
                    }
                }
            }
            for tn in &sc.topic_names {
                for (q, p) in [(0u8, None), (1u8, Some(pid0))] {
                    out.push(Ast::Publish { dup: false, qos: q, retain: false, topic: tn.to_string(), pid: p, props: vec![], payload: utf8_payload.clone() });
                }
            }
            for b in &sc.bin {
                for (q, p) in [(0u8, None), (2u8, Some(pid0))] {
                    out.push(Ast::Publish { dup: false, qos: q, retain: true, topic: tn1.clone(), pid: p, props: vec![], payload: b.clone() });
                }
            }
            if v5 {
                let sets = prop_sets(PUBLISH, sc);
                for ps in &sets {
                    for (q, p) in [(0u8, None), (1u8, Some(pid0))] {
                        out.push(Ast::Publish { dup: false, qos: q, retain: false, topic: tn1.clone(), pid: p, props: ps.clone(), payload: utf8_payload.clone() });
                    }
                    // empty payload and empty topic behind every property set
                    out.push(Ast::Publish { dup: true, qos: 0, retain: false, topic: String::new(), pid: None, props: ps.clone(), payload: vec![] });
                    // binary payloads where the set does not promise UTF-8
                    if !has_pfi_one(ps) && ps.len() <= 2 {
                        for b in &sc.bin {
                            out.push(Ast::Publish { dup: false, qos: 0, retain: false, topic: tn1.clone(), pid: None, props: ps.clone(), payload: b.clone() });
                        }
                    }
                }
            }
        }
        PUBACK | PUBREC | PUBREL | PUBCOMP => {
            if v5 {
                let codes = tables::reason_codes(t);
                for p in &sc.pids {
                    for c in codes {
                        out.push(Ast::Ack { typ: t, pid: *p, code: *c, props: vec![] });
                    }
                }
                for ps in prop_sets(t, sc) {
                    for c in codes {
                        out.push(Ast::Ack { typ: t, pid: pid0, code: *c, props: ps.clone() });
                    }
                }
            } else {
                for p in &sc.pids {
                    out.push(Ast::Ack { typ: t, pid: *p, code: 0, props: vec![] });
                }
            }
        }
        UNSUBACK if !v5 => {
            for p in &sc.pids {
                out.push(Ast::Ack { typ: t, pid: *p, code: 0, props: vec![] });
            }
        }
        SUBSCRIBE => {
            let opts = sub_options(v5, sc);
            let f: Vec<String> = sc.filters.iter().map(|s| s.to_string()).collect();
            let mut tl: Vec<Vec<(String, u8)>> = Vec::new();
            for x in &f {
                for o in &opts {
                    tl.push(vec![(x.clone(), *o)]);
                }
            }
            for l in lists(&f, 2, sc.list_max) {
                let n = l.len();
                tl.push(l.iter().enumerate().map(|(i, x)| (x.clone(), opts[i % opts.len()])).collect());
                tl.push(l.iter().enumerate().map(|(i, x)| (x.clone(), opts[(n - i) % opts.len()])).collect());
            }
            for topics in &tl {
                out.push(Ast::Subscribe { pid: pid0, props: vec![], topics: topics.clone() });
            }
            for p in &sc.pids {
                out.push(Ast::Subscribe { pid: *p, props: vec![], topics: tl[0].clone() });
            }
            if v5 {
                for ps in prop_sets(SUBSCRIBE, sc) {
                    out.push(Ast::Subscribe { pid: pid0, props: ps.clone(), topics: tl[0].clone() });
                    out.push(Ast::Subscribe { pid: pid0, props: ps, topics: tl[tl.len() - 1].clone() });
                }
            }
        }
        SUBACK | UNSUBACK => {
            let codes: Vec<u8> = if v5 { tables::reason_codes(t).to_vec() } else { tables::V3_SUBACK_CODES.to_vec() };
            let mk = |pid: u16, props: Props, codes: Vec<u8>| {
                if t == SUBACK {
                    Ast::Suback { pid, props, codes }
                } else {
                    Ast::Unsuback { pid, props, codes }
                }
            };
            let cl = lists(&codes, 0, sc.list_max);
            for l in &cl {
                out.push(mk(pid0, vec![], l.clone()));
            }
            for p in &sc.pids {
                out.push(mk(*p, vec![], vec![codes[codes.len() - 1]]));
            }
            if v5 {
                for ps in prop_sets(t, sc) {
                    out.push(mk(pid0, ps.clone(), vec![]));
                    out.push(mk(pid0, ps.clone(), vec![codes[0]]));
                    out.push(mk(pid0, ps, codes.clone()));
                }
            }
        }
        UNSUBSCRIBE => {
            let f: Vec<String> = sc.filters.iter().map(|s| s.to_string()).collect();
            let tl = lists(&f, 1, sc.list_max);
            for l in &tl {
                out.push(Ast::Unsubscribe { pid: pid0, props: vec![], topics: l.clone() });
            }
            for p in &sc.pids {
                out.push(Ast::Unsubscribe { pid: *p, props: vec![], topics: tl[0].clone() });
            }
            if v5 {
                for ps in prop_sets(UNSUBSCRIBE, sc) {
                    out.push(Ast::Unsubscribe { pid: pid0, props: ps.clone(), topics: tl[0].clone() });
                    out.push(Ast::Unsubscribe { pid: pid0, props: ps, topics: tl[tl.len() - 1].clone() });
                }
            }
        }
        PINGREQ => out.push(Ast::Pingreq),
        PINGRESP => out.push(Ast::Pingresp),
        DISCONNECT => {
            if v5 {
                for c in tables::reason_codes(DISCONNECT) {
                    out.push(Ast::Disconnect { code: *c, props: vec![] });
                }
                for ps in psets(DISCONNECT) {
                    for c in [0x00u8, 0x04, 0xA2] {
                        out.push(Ast::Disconnect { code: c, props: ps.clone() });
                    }
                }
            } else {
                out.push(Ast::Disconnect { code: 0, props: vec![] });
            }
        }
        AUTH => {
            if v5 {
                for ps in psets(AUTH) {
                    for c in tables::reason_codes(AUTH) {
                        out.push(Ast::Auth { code: *c, props: ps.clone() });
                    }
                }
            }
        }
        _ => {}
    }
    // dedupe, keeping first occurrences (deterministic order)
    let mut seen = HashSet::new();
    out.retain(|a| seen.insert(a.clone()));
    out
}

pub fn types_of(family: Family) -> Vec<u8> {
    match family {
        Family::V3 => (1..=14).collect(),
        Family::V5 => (1..=15).collect(),
    }
}

/// `U_val(family)`: all packet types.
pub fn u_val(family: Family, sc: &Scope) -> Vec<Ast> {
    let mut out = Vec::new();
    for t in types_of(family) {
        out.extend(values_of(family, t, sc));
    }
    out
}

// ---------------------------------------------------------------------------------------------
// U_size: boundary sizes

fn rep(ch: char, n: usize) -> String {
    std::iter::repeat(ch).take(n).collect()
}

/// Values whose *fields* sit on the length boundaries, and values whose *remaining length*
/// is exactly one of `targets` (as far as the packet type can grow that much).
pub fn u_size(family: Family, field_lens: &[usize], targets: &[usize]) -> Vec<Ast> {
    let v5 = family == Family::V5;
    let mut out = Vec::new();
    let level = if v5 { 5 } else { 4 };
    // field lengths
    for &n in field_lens {
        let s = rep('a', n);
        let b = vec![0xABu8; n];
        // 2-byte characters straddle differently
        let s2 = if n >= 2 { format!("{}{}", rep('é', n / 2), if n % 2 == 1 { "a" } else { "" }) } else { s.clone() };
        out.push(Ast::Connect { level, clean: true, keep_alive: 1, props: vec![], client_id: s.clone(), will: None, username: None, password: None });
        out.push(Ast::Connect { level, clean: true, keep_alive: 1, props: vec![], client_id: "c".into(), will: Some(Will { qos: 1, retain: false, props: vec![], topic: s.clone(), payload: b.clone() }), username: Some(s2.clone()), password: Some(b.clone()) });
        out.push(Ast::Publish { dup: false, qos: 1, retain: false, topic: s.clone(), pid: Some(7), props: vec![], payload: b.clone() });
        if n > 0 {
            out.push(Ast::Subscribe { pid: 7, props: vec![], topics: vec![(s.clone(), 1), (format!("{}/#", rep('a', n.saturating_sub(2).max(1))), 0)] });
            out.push(Ast::Unsubscribe { pid: 7, props: vec![], topics: vec![s.clone()] });
        }
        if n + 9 <= 65535 {
            let sh = format!("$share/g/{}", s);
            if n > 0 {
                out.push(Ast::Subscribe { pid: 7, props: vec![], topics: vec![(sh, 0)] });
            }
        }
        if v5 {
            out.push(Ast::Connack { session_present: false, code: 0, props: vec![
                Prop { id: 0x12, val: PVal::Str(s.clone()) },
                Prop { id: 0x1F, val: PVal::Str(s2.clone()) },
                Prop { id: 0x16, val: PVal::Bin(b.clone()) },
                Prop { id: 0x26, val: PVal::Pair(s.clone(), s2.clone()) },
            ] });
            out.push(Ast::Publish { dup: false, qos: 0, retain: false, topic: "t".into(), pid: None, props: vec![
                Prop { id: 0x03, val: PVal::Str(s.clone()) },
                Prop { id: 0x08, val: PVal::Str(s.clone()) },
                Prop { id: 0x09, val: PVal::Bin(b.clone()) },
            ], payload: vec![] });
            out.push(Ast::Ack { typ: PUBACK, pid: 7, code: 0x10, props: vec![Prop { id: 0x1F, val: PVal::Str(s.clone()) }] });
            out.push(Ast::Disconnect { code: 0, props: vec![Prop { id: 0x1C, val: PVal::Str(s.clone()) }] });
            out.push(Ast::Auth { code: 0x18, props: vec![Prop { id: 0x15, val: PVal::Str(s.clone()) }, Prop { id: 0x16, val: PVal::Bin(b.clone()) }] });
        }
    }
    // v5: property LENGTH on its width boundaries (1/2 and 2/3 bytes) in every property set
    if v5 {
        for &pl in &[127usize, 128, 16383, 16384] {
            if !field_lens.contains(&127) {
                break;
            }
            let up = |p: usize| vec![Prop { id: 0x26, val: PVal::Pair(rep('k', p - 5), String::new()) }];
            let f1 = vec![("a".to_string(), 1u8)];
            out.push(Ast::Connect { level: 5, clean: true, keep_alive: 1, props: up(pl), client_id: "c".into(), will: None, username: None, password: None });
            out.push(Ast::Connect { level: 5, clean: true, keep_alive: 1, props: vec![], client_id: "c".into(), will: Some(Will { qos: 0, retain: false, props: up(pl), topic: "t".into(), payload: vec![1] }), username: None, password: None });
            out.push(Ast::Connack { session_present: false, code: 0, props: up(pl) });
            out.push(Ast::Publish { dup: false, qos: 1, retain: false, topic: "t".into(), pid: Some(7), props: up(pl), payload: vec![1, 2] });
            for t in [PUBACK, PUBREC, PUBREL, PUBCOMP] {
                out.push(Ast::Ack { typ: t, pid: 7, code: 0, props: up(pl) });
            }
            out.push(Ast::Subscribe { pid: 7, props: up(pl), topics: f1.clone() });
            out.push(Ast::Suback { pid: 7, props: up(pl), codes: vec![1] });
            out.push(Ast::Unsubscribe { pid: 7, props: up(pl), topics: vec!["a".into(), "b/#".into()] });
            out.push(Ast::Unsuback { pid: 7, props: up(pl), codes: vec![0x11] });
            out.push(Ast::Disconnect { code: 0, props: up(pl) });
            out.push(Ast::Auth { code: 0, props: up(pl) });
            // two user properties adding up to the same boundary
            if pl >= 20 {
                let two = vec![
                    Prop { id: 0x26, val: PVal::Pair("a".into(), "b".into()) },
                    Prop { id: 0x26, val: PVal::Pair(rep('k', pl - 7 - 5), String::new()) },
                ];
                out.push(Ast::Unsubscribe { pid: 7, props: two.clone(), topics: vec!["a".into()] });
                out.push(Ast::Subscribe { pid: 7, props: two, topics: f1.clone() });
            }
        }
    }
    // remaining-length targets
    for &tg in targets {
        // PUBLISH qos0: 2 + 1 (+1 property length) + payload
        let fixed = if v5 { 4 } else { 3 };
        if tg >= fixed {
            out.push(Ast::Publish { dup: false, qos: 0, retain: false, topic: "a".into(), pid: None, props: vec![], payload: vec![0x5A; tg - fixed] });
        }
        // PUBLISH qos2 with a multi-byte topic
        let fixed = if v5 { 7 } else { 6 };
        if tg >= fixed {
            out.push(Ast::Publish { dup: true, qos: 2, retain: true, topic: "é".into(), pid: Some(0x0201), props: vec![], payload: vec![0x00; tg - fixed] });
        }
        if tg <= 70_000 {
            // SUBACK: 2 (+1) + codes
            let fixed = if v5 { 3 } else { 2 };
            if tg >= fixed {
                out.push(Ast::Suback { pid: 7, props: vec![], codes: (0..tg - fixed).map(|i| [0u8, 1, 2, 0x80][i % 4]).collect() });
            }
            // SUBSCRIBE: 2 (+1) + k*(2+1+1) + pad via last filter
            let fixed = if v5 { 3 } else { 2 };
            if tg >= fixed + 4 {
                let body = tg - fixed;
                let k = body / 4;
                let extra = body % 4;
                let mut topics: Vec<(String, u8)> = (0..k - 1).map(|i| ("a".to_string(), (i % 3) as u8)).collect();
                topics.push((rep('b', 1 + extra), 1));
                out.push(Ast::Subscribe { pid: 7, props: vec![], topics });
            }
            // CONNECT with a password that fills the rest: 10 (+1) + 2+1 + 2+len
            let fixed = if v5 { 16 } else { 15 };
            if tg >= fixed && tg - fixed <= 65535 {
                out.push(Ast::Connect { level, clean: true, keep_alive: 60, props: vec![], client_id: "c".into(), will: None, username: None, password: Some(vec![1; tg - fixed]) });
            }
        }
        if v5 {
            // CONNACK whose *property length* is exactly tg - 2 - varint_len: user properties of 65535-byte values
            // property length p, remaining = 2 + len(varint(p)) + p
            for vl in 1..=4usize {
                if tg >= 2 + vl {
                    let p = tg - 2 - vl;
                    if crate::num::varint_len(p as u32) == vl && p as u64 <= crate::num::VARINT_MAX as u64 && p <= 3_000_000 {
                        // fill p with user properties: each 1+2+k+2+v
                        let mut props = Vec::new();
                        let mut left = p;
                        while left > 0 {
                            if left >= 5 {
                                let take = (left - 5).min(65535);
                                // avoid leaving 1..4 bytes that cannot be a property: leave either 0 or >= 5
                                let mut take = take;
                                let rest = left - 5 - take;
                                if rest > 0 && rest < 5 {
                                    take -= 5 - rest;
                                }
                                props.push(Prop { id: 0x26, val: PVal::Pair(rep('k', take), String::new()) });
                                left -= 5 + take;
                            } else if left == 2 {
                                props.push(Prop { id: 0x25, val: PVal::Byte(1) });
                                left -= 2;
                            } else if left == 3 {
                                props.push(Prop { id: 0x13, val: PVal::U16(9) });
                                left -= 3;
                            } else if left == 4 {
                                props.push(Prop { id: 0x25, val: PVal::Byte(1) });
                                props.push(Prop { id: 0x24, val: PVal::Byte(1) });
                                left -= 4;
                            } else {
                                break;
                            }
                        }
                        if left == 0 {
                            // user properties last (canonical order)
                            props.sort_by_key(|x| x.id == 0x26);
                            out.push(Ast::Connack { session_present: true, code: 0, props });
                        }
                    }
                }
            }
        }
    }
    out
}
