#!/usr/bin/env python3
"""Mechanical mutation sweep (development tool, never touches /repo).

Generates single-token mutants of /repo/src (relational operators, boolean connectives, small
constants, literals in tables, true/false), and for each one, in the scratch copy under /tmp/mm:
  1. cargo test --workspace --offline in the scratch worktree  -> invalid (does not compile) /
     killed by the existing suite / survives the suite
  2. for suite survivors: the quick checks (fast profile), cheapest first, stop at the first that
     reports a violation                                          -> killed by <check> / SURVIVED
Results are appended to the log given as argv[1]. argv[2] = stride (take every n-th candidate),
argv[3] = offset.
"""
import json, os, re, subprocess, sys, hashlib

V = "/verif"; S = os.environ.get("MUT_SCRATCH", "/tmp/mm")
ORDER = ["C20", "C01", "C10", "C02", "C09", "C14", "C07", "C13", "C08", "C16", "C17", "C18", "C15", "C19", "C05", "C04", "C06", "C11", "C12", "C03"]

def sh(cmd, **kw):
    return subprocess.run(cmd, shell=True, text=True, errors="replace", stdout=subprocess.PIPE, stderr=subprocess.STDOUT, **kw)

def setup():
    os.makedirs(S, exist_ok=True)
    if not os.path.exists(f"{S}/repo"):
        print(sh(f"git -C /repo worktree add --detach {S}/repo HEAD").stdout)
    sh(f"git -C {S}/repo checkout -q --detach $(git -C /repo rev-parse HEAD) && git -C {S}/repo checkout -q -- .")
    sh(f"rsync -a --delete {V}/mc/ {S}/mc/ --exclude target && rsync -a --delete {V}/refmodel/ {S}/refmodel/")
    t = open(f"{S}/mc/Cargo.toml").read().replace('path = "/repo"', f'path = "{S}/repo"')
    open(f"{S}/mc/Cargo.toml", "w").write(t)

RULES = [
    (r"(?<![<>=!-])<(?![<=])", "<="), (r"<=", "<"), (r"(?<![->=])>(?![>=])", ">="), (r">=", ">"),
    (r"==", "!="), (r"!=", "=="), (r"&&", "||"), (r"\|\|", "&&"),
    (r"\+ 1\b", "+ 2"), (r"\+ 1\b", "+ 0"), (r"- 1\b", "- 0"), (r"\+ 2\b", "+ 3"), (r"\+ 2\b", "+ 1"), (r"\+ 4\b", "+ 3"), (r"\+ 3\b", "+ 2"),
    (r"\btrue\b", "false"), (r"\bfalse\b", "true"),
    (r"\b0x([0-9A-Fa-f]{2})\b", "HEX+1"), (r"\b0b([01]{4,8})\b", "BIN-FLIP"),
    (r"\b(\d+)\b", "DEC+1"),
    (r"\.checked_sub\(", ".wrapping_sub_opt("),  # does not compile: acts as a canary for 'invalid'
]

def candidates():
    out = []
    files = sorted(f for f in sh(f"git -C /repo ls-files src").stdout.split() if f.endswith(".rs") and "/tests/" not in f)
    for f in files:
        lines = open(f"/repo/{f}").read().split("\n")
        in_test = False
        for i, line in enumerate(lines):
            st = line.strip()
            if st.startswith("#[cfg(test)]"):
                in_test = True
            if in_test:
                continue
            if st.startswith("//") or st.startswith("#[") or st.startswith("use ") or not st:
                continue
            code = line.split("//")[0]
            # skip generic brackets / arrows / lifetimes heavy lines for the '<' '>' rules
            for pat, rep in RULES:
                for m in re.finditer(pat, code):
                    if pat.startswith(r"(?<![<>=!-])<") or pat.startswith(r"(?<![->=])>"):
                        # only comparisons: need spaces around
                        a, b = m.start(), m.end()
                        if not (a > 0 and code[a - 1] == " " and b < len(code) and code[b] == " "):
                            continue
                    new = rep
                    if rep == "HEX+1":
                        v = (int(m.group(1), 16) + 1) & 0xFF
                        new = "0x%02X" % v
                    elif rep == "BIN-FLIP":
                        bits = m.group(1)
                        new = "0b" + bits[:-1] + ("0" if bits[-1] == "1" else "1")
                    elif rep == "DEC+1":
                        if m.group(1) in ("0",) or len(m.group(1)) > 9 or code[max(0, m.start() - 1)] in ".x_b" or re.search(r"[A-Za-z_]$", code[:m.start()]):
                            continue
                        new = str(int(m.group(1)) + 1)
                    out.append((f, i, m.start(), m.end(), new, line))
    if os.environ.get("MUT_OPS", "token") == "stmt":
        out = []
        for f in files:
            lines = open(f"/repo/{f}").read().split("\n")
            in_test = False
            for i, line in enumerate(lines):
                st = line.strip()
                if st.startswith("#[cfg(test)]"):
                    in_test = True
                if in_test or st.startswith("//") or st.startswith("macro_rules") :
                    continue
                nxt = lines[i + 1].strip() if i + 1 < len(lines) else ""
                # a guard whose body starts with an error return: disable the guard
                if st.startswith("if ") and st.endswith("{") and (nxt.startswith("return Err(") or nxt.startswith("return (true") or nxt.startswith("return Poll::Ready(Err(") or nxt.startswith("Err(")):
                    a = line.index("if ") + 3
                    out.append((f, i, a, a, "false && ", line))
                    out.append((f, i, a, len(line) - 1, "!(" + line[a:len(line) - 1].strip() + ") ", line))
                # delete a side-effect statement
                if (st.endswith(";") and not st.startswith("let ") and not st.startswith("return") and not st.startswith("pub ") and not st.startswith("use ")
                        and not st.startswith("type ") and not st.startswith("const ") and not st.startswith("}") and "=>" not in st and len(st) > 3):
                    indent = len(line) - len(line.lstrip())
                    out.append((f, i, indent, len(line), "{}", line))
    # dedupe
    seen = set(); res = []
    for c in out:
        k = (c[0], c[1], c[2], c[4])
        if k not in seen:
            seen.add(k); res.append(c)
    return res

def apply(c):
    f, i, a, b, new, line = c
    p = f"{S}/repo/{f}"
    lines = open(p).read().split("\n")
    assert lines[i] == line
    lines[i] = line[:a] + new + line[b:]
    open(p, "w").write("\n".join(lines))
    return lines[i]

def known():
    try: return [k for k in json.load(open(f"{V}/known_findings.json"))["findings"] if k["status"] == "known"]
    except Exception: return []
def km(p, k): return re.match("^" + ".*".join(re.escape(x) for x in p.split("*")) + "$", k) is not None

def main():
    log = sys.argv[1]; stride = int(sys.argv[2]); offset = int(sys.argv[3])
    setup()
    cands = candidates()
    picked = cands[offset::stride]
    with open(log, "a") as L:
        L.write(f"# {len(cands)} candidates, stride {stride} offset {offset}: {len(picked)} mutants\n"); L.flush()
        for c in picked:
            sh(f"git -C {S}/repo checkout -q -- .")
            newline = apply(c)
            ident = f"{c[0]}:{c[1]+1}:{c[2]}"
            desc = f"{ident} | {c[5].strip()[:90]}  =>  {newline.strip()[:90]}"
            t = sh(f"cd {S}/repo && CARGO_TARGET_DIR={S}/target-repo timeout 300 cargo test --workspace --offline 2>&1 | tail -15")  # a hanging suite counts as killed
            if "test result: ok. 73 passed" not in t.stdout:
                verdict = "INVALID" if ("error[" in t.stdout or "error:" in t.stdout) and "test result" not in t.stdout else "KILLED-BY-SUITE"
                L.write(f"{verdict} | {desc}\n"); L.flush(); continue
            b = sh(f"cd {S}/mc && cargo build --offline --profile fast")
            if b.returncode != 0:
                L.write(f"HARNESS-BUILD-FAIL | {desc}\n"); L.flush(); continue
            verdict = "SURVIVED"
            for cid in ORDER:
                out = f"{S}/{cid}.mut.json"
                r = sh(f"cd {S} && timeout 900 {S}/target/fast/mqtt-mc {cid} --tier quick --profile fast --out {out}")
                if r.returncode != 0:
                    verdict = f"KILLED-BY {cid} (harness exit {r.returncode})"; break
                j = json.load(open(out, encoding="utf-8", errors="replace"))
                ks = [v["key"] for v in j["violation_list"] if not any(km(k["key"], v["key"]) and k["property"] == cid for k in known())]
                if ks:
                    verdict = f"KILLED-BY {cid} {ks[0][:60]}"; break
                if j["info"].get("machinery_error"):
                    verdict = f"KILLED-BY {cid} (machinery: coverage/self-check)"; break
            L.write(f"{verdict} | {desc}\n"); L.flush()
    sh(f"git -C {S}/repo checkout -q -- .")

main()
