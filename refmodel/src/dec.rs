//! Strict reference decoder of ONE complete frame, written from the specifications.
//!
//! `decode(family, frame)` classifies the frame as
//!   * `Accept{ast, lenient}` – structurally well-formed; `lenient` lists the pinned leniencies
//!      (DESIGN.md 4.1) the frame relies on, empty for a frame that is well formed by the letter;
//!   * `Reject(viol)` – the first violation met in wire order;
//!   * `OutOfDomain` – a non-minimally encoded variable byte integer was met before any violation;
//!   * `NotOneFrame` – the input is not exactly header + declared number of body bytes.

use crate::ast::ptype::*;
use crate::ast::*;
use crate::num::{self, VarIntErr};
use crate::tables::{self, PType};
use crate::text;

#[derive(Clone, Copy, Debug, PartialEq, Eq, Hash, PartialOrd, Ord)]
pub enum Leniency {
    /// L1: U+0000 inside a UTF-8 string that is not a topic name / filter
    NulInString,
    /// L2: CONNECT will-retain set without the will flag
    WillRetainWithoutWill,
    /// L3: v3.1.1 password flag without user-name flag
    PasswordWithoutUsername,
    /// L4: empty topic name (PUBLISH, will topic, response topic)
    EmptyTopicName,
    /// L5: SUBACK / UNSUBACK without any return / reason code
    EmptyAckList,
    /// R1: v5 PUBLISH with more than one subscription identifier (legal, the library's type cannot hold it)
    MultipleSubscriptionIds,
}

#[derive(Clone, Debug, PartialEq, Eq, Hash)]
pub enum Viol {
    BadType(u8),
    BadFlags(u8),
    PublishQos3,
    BodylessNonZeroLen,
    ZeroPid,
    BadQos(u8),
    BadSubackCode(u8),
    BadConnackCode(u8),
    BadConnackFlags(u8),
    BadConnectFlags(u8),
    BadReasonCode(u8, u8),
    BadSubOpts(u8),
    BadUtf8,
    BadTopicName(String),
    BadResponseTopic,
    BadFilter(String),
    UnknownPropId(u8),
    DupProp(u8),
    PropNotAllowed(u8, u8),
    WillPropNotAllowed(u8),
    BadPropLen(u32),
    BadByteProp(u8, u8),
    VarIntTooLong,
    BadProtocol(Vec<u8>, u8),
    OtherFamily(u8),
    NoTopics,
    BadPayloadFormat,
    /// the body ends before the fields it must contain
    Truncated,
    /// bytes are left inside the frame after the last field
    Trailing,
}

#[derive(Clone, Debug, PartialEq, Eq)]
pub enum Verdict {
    Accept { ast: Ast, lenient: Vec<Leniency> },
    Reject(Viol),
    OutOfDomain,
    NotOneFrame,
}

enum Stop {
    V(Viol),
    OutOfDomain,
}
impl From<Viol> for Stop {
    fn from(v: Viol) -> Stop {
        Stop::V(v)
    }
}
type R<T> = Result<T, Stop>;

struct Cur<'a> {
    b: &'a [u8],
    pos: usize,
    len: Vec<Leniency>,
}

impl<'a> Cur<'a> {
    fn left(&self) -> usize {
        self.b.len() - self.pos
    }
    fn take(&mut self, n: usize) -> R<&'a [u8]> {
        if self.left() < n {
            return Err(Viol::Truncated.into());
        }
        let s = &self.b[self.pos..self.pos + n];
        self.pos += n;
        Ok(s)
    }
    fn u8(&mut self) -> R<u8> {
        Ok(self.take(1)?[0])
    }
    fn u16(&mut self) -> R<u16> {
        let s = self.take(2)?;
        Ok(u16::from_be_bytes([s[0], s[1]]))
    }
    fn u32(&mut self) -> R<u32> {
        let s = self.take(4)?;
        Ok(u32::from_be_bytes([s[0], s[1], s[2], s[3]]))
    }
    fn bin(&mut self) -> R<Vec<u8>> {
        let n = self.u16()? as usize;
        Ok(self.take(n)?.to_vec())
    }
    /// UTF-8 Encoded String; `nul_ok_as_leniency`: a U+0000 inside is recorded as L1 instead of being rejected
    fn string(&mut self) -> R<String> {
        let raw = self.bin()?;
        let s = text::utf8(&raw).ok_or(Viol::BadUtf8)?.to_string();
        Ok(s)
    }
    fn plain_string(&mut self) -> R<String> {
        let s = self.string()?;
        if s.contains('\0') {
            self.note(Leniency::NulInString);
        }
        Ok(s)
    }
    fn varint(&mut self) -> R<u32> {
        match num::read_varint(&self.b[self.pos..]) {
            Ok((v, used, minimal)) => {
                self.pos += used;
                if !minimal {
                    return Err(Stop::OutOfDomain);
                }
                Ok(v)
            }
            Err(VarIntErr::Truncated) => Err(Viol::Truncated.into()),
            Err(VarIntErr::TooLong) => Err(Viol::VarIntTooLong.into()),
        }
    }
    fn pid(&mut self) -> R<u16> {
        let p = self.u16()?;
        if p == 0 {
            return Err(Viol::ZeroPid.into());
        }
        Ok(p)
    }
    fn note(&mut self, l: Leniency) {
        if !self.len.contains(&l) {
            self.len.push(l);
        }
    }
    fn end(&self) -> R<()> {
        if self.left() != 0 {
            Err(Viol::Trailing.into())
        } else {
            Ok(())
        }
    }
}

fn props(c: &mut Cur, owner: u8) -> R<Props> {
    let plen = c.varint()?;
    if plen as usize > c.left() {
        return Err(Viol::Truncated.into());
    }
    let sub = c.take(plen as usize)?;
    let mut s = Cur { b: sub, pos: 0, len: Vec::new() };
    let mut out: Props = Vec::new();
    // a value that runs past the declared property length is a property-length error
    fn within<T>(r: R<T>, plen: u32) -> R<T> {
        match r {
            Err(Stop::V(Viol::Truncated)) => Err(Viol::BadPropLen(plen).into()),
            x => x,
        }
    }
    while s.left() > 0 {
        let id = s.u8()?;
        let def = tables::prop_def(id).ok_or(Viol::UnknownPropId(id))?;
        if !def.allowed.contains(&owner) {
            return Err(if owner == WILL { Viol::WillPropNotAllowed(id) } else { Viol::PropNotAllowed(owner, id) }.into());
        }
        if id != tables::USER_PROPERTY && out.iter().any(|p| p.id == id) {
            if owner == PUBLISH && id == tables::SUBSCRIPTION_IDENTIFIER {
                s.note(Leniency::MultipleSubscriptionIds);
            } else {
                return Err(Viol::DupProp(id).into());
            }
        }
        let val = match def.typ {
            PType::Byte => {
                let v = within(s.u8(), plen)?;
                if v > 1 {
                    return Err(Viol::BadByteProp(id, v).into());
                }
                PVal::Byte(v)
            }
            PType::U16 => PVal::U16(within(s.u16(), plen)?),
            PType::U32 => PVal::U32(within(s.u32(), plen)?),
            PType::VarInt => PVal::VarInt(within(s.varint(), plen)?),
            PType::Str => {
                if id == tables::RESPONSE_TOPIC {
                    let t = within(s.string(), plen)?;
                    if !text::topic_name_valid(&t) {
                        return Err(Viol::BadResponseTopic.into());
                    }
                    if t.is_empty() {
                        s.note(Leniency::EmptyTopicName);
                    }
                    PVal::Str(t)
                } else {
                    PVal::Str(within(s.plain_string(), plen)?)
                }
            }
            PType::Bin => PVal::Bin(within(s.bin(), plen)?),
            PType::Pair => {
                let k = within(s.plain_string(), plen)?;
                let v = within(s.plain_string(), plen)?;
                PVal::Pair(k, v)
            }
        };
        out.push(Prop { id, val });
    }
    for l in s.len {
        c.note(l);
    }
    Ok(out)
}

fn pfi_one(p: &Props) -> bool {
    p.iter().any(|x| x.id == tables::PAYLOAD_FORMAT_INDICATOR && x.val == PVal::Byte(1))
}

fn topic_name(c: &mut Cur) -> R<String> {
    let t = c.string()?;
    if !text::topic_name_valid(&t) {
        return Err(Viol::BadTopicName(t).into());
    }
    if t.is_empty() {
        c.note(Leniency::EmptyTopicName);
    }
    Ok(t)
}

fn topic_filter(c: &mut Cur) -> R<String> {
    let t = c.string()?;
    if !text::filter_valid(&t) {
        return Err(Viol::BadFilter(t).into());
    }
    Ok(t)
}

fn reason(t: u8, code: u8) -> R<u8> {
    if tables::reason_codes(t).contains(&code) {
        Ok(code)
    } else {
        Err(Viol::BadReasonCode(t, code).into())
    }
}

fn body(family: Family, control: u8, c: &mut Cur) -> R<Ast> {
    let v5 = family == Family::V5;
    let t = control >> 4;
    let fl = control & 0x0F;
    if t == 0 || (t == AUTH && !v5) {
        return Err(Viol::BadType(t).into());
    }
    if t == PUBLISH {
        if (fl >> 1) & 3 == 3 {
            return Err(Viol::PublishQos3.into());
        }
    } else if tables::fixed_flags(t) != Some(fl) {
        return Err(Viol::BadFlags(control).into());
    }
    let rem = c.b.len();
    let ast = match t {
        CONNECT => {
            let name = c.bin()?;
            let level = c.u8()?;
            let known: &[(&[u8], u8)] = &[(b"MQIsdp", 3), (b"MQTT", 4), (b"MQTT", 5)];
            if !known.contains(&(&name[..], level)) {
                if text::utf8(&name).is_none() {
                    return Err(Viol::BadUtf8.into());
                }
                return Err(Viol::BadProtocol(name, level).into());
            }
            if v5 != (level == 5) {
                return Err(Viol::OtherFamily(level).into());
            }
            let cf = c.u8()?;
            if cf & 1 != 0 {
                return Err(Viol::BadConnectFlags(cf).into());
            }
            let has_will = cf & 0x04 != 0;
            let wqos = (cf >> 3) & 3;
            let wretain = cf & 0x20 != 0;
            if !has_will && wqos != 0 {
                return Err(Viol::BadConnectFlags(cf).into());
            }
            if has_will && wqos == 3 {
                return Err(Viol::BadQos(3).into());
            }
            if !has_will && wretain {
                c.note(Leniency::WillRetainWithoutWill);
            }
            if !v5 && cf & 0x40 != 0 && cf & 0x80 == 0 {
                c.note(Leniency::PasswordWithoutUsername);
            }
            let keep_alive = c.u16()?;
            let p = if v5 { props(c, CONNECT)? } else { vec![] };
            let client_id = c.plain_string()?;
            let will = if has_will {
                let wp = if v5 { props(c, WILL)? } else { vec![] };
                let topic = topic_name(c)?;
                let payload = c.bin()?;
                if pfi_one(&wp) && text::utf8(&payload).is_none() {
                    return Err(Viol::BadPayloadFormat.into());
                }
                Some(Will { qos: wqos, retain: wretain, props: wp, topic, payload })
            } else {
                None
            };
            let username = if cf & 0x80 != 0 { Some(c.plain_string()?) } else { None };
            let password = if cf & 0x40 != 0 { Some(c.bin()?) } else { None };
            Ast::Connect { level, clean: cf & 2 != 0, keep_alive, props: p, client_id, will, username, password }
        }
        CONNACK => {
            let f = c.u8()?;
            if f > 1 {
                return Err(Viol::BadConnackFlags(f).into());
            }
            let code = c.u8()?;
            if v5 {
                reason(CONNACK, code)?;
            } else if !tables::V3_CONNACK_CODES.contains(&code) {
                return Err(Viol::BadConnackCode(code).into());
            }
            let p = if v5 { props(c, CONNACK)? } else { vec![] };
            Ast::Connack { session_present: f == 1, code, props: p }
        }
        PUBLISH => {
            let qos = (fl >> 1) & 3;
            let topic = topic_name(c)?;
            let pid = if qos > 0 { Some(c.pid()?) } else { None };
            let p = if v5 { props(c, PUBLISH)? } else { vec![] };
            let n = c.left();
            let payload = c.take(n)?.to_vec();
            if pfi_one(&p) && text::utf8(&payload).is_none() {
                return Err(Viol::BadPayloadFormat.into());
            }
            Ast::Publish { dup: fl & 8 != 0, qos, retain: fl & 1 != 0, topic, pid, props: p, payload }
        }
        PUBACK | PUBREC | PUBREL | PUBCOMP => {
            let pid = c.pid()?;
            let (code, p) = if !v5 || rem == 2 {
                (0, vec![])
            } else if rem == 3 {
                (reason(t, c.u8()?)?, vec![])
            } else {
                let code = reason(t, c.u8()?)?;
                (code, props(c, t)?)
            };
            Ast::Ack { typ: t, pid, code, props: p }
        }
        UNSUBACK if !v5 => {
            let pid = c.pid()?;
            Ast::Ack { typ: t, pid, code: 0, props: vec![] }
        }
        SUBSCRIBE => {
            let pid = c.pid()?;
            let p = if v5 { props(c, SUBSCRIBE)? } else { vec![] };
            let mut topics = Vec::new();
            if c.left() == 0 {
                return Err(Viol::NoTopics.into());
            }
            while c.left() > 0 {
                let f = topic_filter(c)?;
                let o = c.u8()?;
                if v5 {
                    if o & 0xC0 != 0 || o & 3 == 3 || (o >> 4) & 3 == 3 {
                        return Err(Viol::BadSubOpts(o).into());
                    }
                } else if o > 2 {
                    return Err(Viol::BadQos(o).into());
                }
                topics.push((f, o));
            }
            Ast::Subscribe { pid, props: p, topics }
        }
        SUBACK => {
            let pid = c.pid()?;
            let p = if v5 { props(c, SUBACK)? } else { vec![] };
            let mut codes = Vec::new();
            while c.left() > 0 {
                let code = c.u8()?;
                if v5 {
                    reason(SUBACK, code)?;
                } else if !tables::V3_SUBACK_CODES.contains(&code) {
                    return Err(Viol::BadSubackCode(code).into());
                }
                codes.push(code);
            }
            if codes.is_empty() {
                c.note(Leniency::EmptyAckList);
            }
            Ast::Suback { pid, props: p, codes }
        }
        UNSUBSCRIBE => {
            let pid = c.pid()?;
            let p = if v5 { props(c, UNSUBSCRIBE)? } else { vec![] };
            if c.left() == 0 {
                return Err(Viol::NoTopics.into());
            }
            let mut topics = Vec::new();
            while c.left() > 0 {
                topics.push(topic_filter(c)?);
            }
            Ast::Unsubscribe { pid, props: p, topics }
        }
        UNSUBACK => {
            let pid = c.pid()?;
            let p = props(c, UNSUBACK)?;
            let mut codes = Vec::new();
            while c.left() > 0 {
                codes.push(reason(UNSUBACK, c.u8()?)?);
            }
            if codes.is_empty() {
                c.note(Leniency::EmptyAckList);
            }
            Ast::Unsuback { pid, props: p, codes }
        }
        PINGREQ | PINGRESP => {
            if rem != 0 {
                return Err(Viol::BodylessNonZeroLen.into());
            }
            if t == PINGREQ {
                Ast::Pingreq
            } else {
                Ast::Pingresp
            }
        }
        DISCONNECT => {
            if !v5 {
                if rem != 0 {
                    return Err(Viol::BodylessNonZeroLen.into());
                }
                Ast::Disconnect { code: 0, props: vec![] }
            } else if rem == 0 {
                Ast::Disconnect { code: 0, props: vec![] }
            } else if rem == 1 {
                Ast::Disconnect { code: reason(DISCONNECT, c.u8()?)?, props: vec![] }
            } else {
                let code = reason(DISCONNECT, c.u8()?)?;
                Ast::Disconnect { code, props: props(c, DISCONNECT)? }
            }
        }
        AUTH => {
            if rem == 0 {
                Ast::Auth { code: 0, props: vec![] }
            } else {
                let code = reason(AUTH, c.u8()?)?;
                Ast::Auth { code, props: props(c, AUTH)? }
            }
        }
        _ => return Err(Viol::BadType(t).into()),
    };
    c.end()?;
    Ok(ast)
}

/// Split the fixed header off a byte string: (control byte, remaining length, header length, minimal?).
pub fn header(frame: &[u8]) -> Result<(u8, u32, usize, bool), VarIntErr> {
    let control = *frame.first().ok_or(VarIntErr::Truncated)?;
    let (rem, used, minimal) = num::read_varint(&frame[1..])?;
    Ok((control, rem, 1 + used, minimal))
}

pub fn decode(family: Family, frame: &[u8]) -> Verdict {
    let (control, rem, hl, minimal) = match header(frame) {
        Ok(x) => x,
        Err(VarIntErr::Truncated) => return Verdict::NotOneFrame,
        Err(VarIntErr::TooLong) => {
            // the type/flag nibbles come first in wire order
            let control = frame[0];
            let t = control >> 4;
            let v5 = family == Family::V5;
            if t == 0 || (t == AUTH && !v5) {
                return Verdict::Reject(Viol::BadType(t));
            }
            return Verdict::Reject(Viol::VarIntTooLong);
        }
    };
    if frame.len() != hl + rem as usize {
        return Verdict::NotOneFrame;
    }
    if !minimal {
        return Verdict::OutOfDomain;
    }
    let mut c = Cur { b: &frame[hl..], pos: 0, len: Vec::new() };
    match body(family, control, &mut c) {
        Ok(ast) => {
            let mut l = c.len;
            l.sort();
            Verdict::Accept { ast, lenient: l }
        }
        Err(Stop::V(v)) => Verdict::Reject(v),
        Err(Stop::OutOfDomain) => Verdict::OutOfDomain,
    }
}
