//! Checks that quantify over the valid-packet universes: C01 (round trip), C02 (declared lengths),
//! C07 (incomplete input / trailing bytes), C09 (encoder entry points), C10 (independent decoder).

use crate::astjson;
use crate::env::{drive, ScriptedWriter, WA};
use crate::ev::{guard, hex_short, last_panic_loc, Ctx};
use crate::fam::{Fam, V3, V5};
use crate::front::{self, Out};
use mqtt_proto::VarBytes;
use mqtt_ref::dec::{self, Verdict};
use mqtt_ref::gen::{self, Scope};
use mqtt_ref::{enc, num, Ast, Family};
use rayon::prelude::*;
use serde_json::{json, Value};
use std::collections::BTreeSet;
use std::sync::atomic::{AtomicU64, Ordering::Relaxed};
use std::sync::Mutex;

pub const B16: [u8; 16] = [0, 1, 2, 3, 4, 5, 0x0B, 0x11, 0x1F, 0x26, 0x7F, 0x80, 0xFF, b'a', b'+', b'/'];

pub const FIELD_LENS: &[usize] = &[0, 1, 127, 128, 255, 256, 257, 16383, 16384, 65534, 65535];

pub fn size_targets(ctx: &Ctx) -> Vec<usize> {
    let mut t = vec![127, 128, 16383, 16384, 2_097_151, 2_097_152];
    if ctx.thorough() {
        t.push(268_435_455);
    }
    t
}

pub fn scope_of(ctx: &Ctx) -> Scope {
    if ctx.thorough() {
        Scope::thorough()
    } else {
        Scope::quick()
    }
}

/// U_val ∪ U_size ∪ U_field ∪ U_thresh for one family (U_field last; values already in U_val are not repeated)
pub fn universe(fam: Family, ctx: &Ctx) -> (Vec<Ast>, usize) {
    let mut u = gen::u_val(fam, &scope_of(ctx));
    let nval = u.len();
    u.extend(gen::u_size(fam, FIELD_LENS, &size_targets(ctx)));
    let nsize = u.len() - nval;
    let (f, st) = mqtt_ref::genfield::u_field(fam, ctx.thorough());
    let have: std::collections::HashSet<&Ast> = u[..nval].iter().collect();
    let f: Vec<Ast> = f.into_iter().filter(|a| !have.contains(a)).collect();
    let name = if fam == Family::V3 { "v3" } else { "v5" };
    ctx.count_set(&format!("{name}_U_field"), f.len() as u64);
    ctx.count_set(&format!("{name}_U_field_slots"), st.slots as u64);
    ctx.count_set(&format!("{name}_U_field_each_slot"), st.each_slot as u64);
    ctx.count_set(&format!("{name}_U_field_slot_pairs"), st.pairs as u64);
    ctx.count_set(&format!("{name}_U_field_flag_code_products"), st.flag_products as u64);
    ctx.count_set(&format!("{name}_U_field_slot_relations"), st.relations as u64);
    ctx.count_set(&format!("{name}_U_field_dropped_by_reference_grammar"), st.dropped_by_grammar as u64);
    let _ = nsize;
    u.extend(f);
    let t = mqtt_ref::genfield::u_thresh(fam);
    ctx.count_set(&format!("{name}_U_thresh"), t.len() as u64);
    u.extend(t);
    (u, nval)
}

pub fn u_small(fam: Family) -> Vec<Ast> {
    gen::u_val(fam, &Scope::small())
}

pub fn u_tiny(fam: Family) -> Vec<Ast> {
    gen::u_val(fam, &Scope::tiny())
}

pub fn case_of<F: Fam>(ast: &Ast) -> Value {
    json!({"kind": "value", "family": F::NAME, "ast": astjson::to_json(ast)})
}

fn key<F: Fam>(prop: &str, ast: &Ast, step: &str) -> String {
    format!("{prop}:{}:{}:{step}", F::NAME, astjson::type_name(ast))
}

fn approx_size(a: &Ast) -> usize {
    match a {
        Ast::Publish { payload, topic, .. } => payload.len() + topic.len(),
        Ast::Suback { codes, .. } | Ast::Unsuback { codes, .. } => codes.len(),
        Ast::Connack { props, .. } => props.len() * 1000,
        Ast::Subscribe { topics, .. } => topics.len() * 4,
        _ => 0,
    }
}

/// run `f` over the universe: small items in parallel, huge ones one at a time
pub fn for_items(u: &[Ast], f: &(dyn Fn(usize, &Ast) + Sync)) {
    let (big, small): (Vec<usize>, Vec<usize>) = (0..u.len()).partition(|i| approx_size(&u[*i]) > 4_000_000);
    small.par_iter().for_each(|i| f(*i, &u[*i]));
    for i in big {
        f(i, &u[i]);
    }
}

fn fnv(idx: usize, b: &[u8]) -> u64 {
    let mut h: u64 = 0xcbf29ce484222325 ^ (idx as u64).wrapping_mul(0x9E3779B97F4A7C15);
    for x in b {
        h ^= *x as u64;
        h = h.wrapping_mul(0x100000001b3);
    }
    h
}

/// Build the crate value and its encoding; reports construction / encode failures under `prop`.
pub fn build<F: Fam>(ctx: &Ctx, prop: &str, ast: &Ast) -> Option<(F::Packet, Vec<u8>)> {
    let pkt = match guard(|| F::from_ast(ast)) {
        Ok(Some(p)) => p,
        Ok(None) => {
            ctx.violation(key::<F>(prop, ast, "construct"), "a valid value cannot be constructed with the crate's validated types".into(), case_of::<F>(ast));
            return None;
        }
        Err(m) => {
            ctx.violation(key::<F>(prop, ast, "construct-panic"), format!("constructing the value panics: {m}"), case_of::<F>(ast));
            return None;
        }
    };
    match guard(|| F::encode(&pkt)) {
        Ok(Ok(vb)) => {
            let b = vb.as_ref().to_vec();
            Some((pkt, b))
        }
        Ok(Err(e)) => {
            ctx.violation(key::<F>(prop, ast, "encode-error"), format!("encoding a valid packet fails: {e:?}"), case_of::<F>(ast));
            None
        }
        Err(m) => {
            ctx.violation(key::<F>(prop, ast, "encode-panic"), format!("encoding a valid packet panics: {m} @ {}", last_panic_loc()), case_of::<F>(ast));
            None
        }
    }
}

// ---------------------------------------------------------------------------------------------
// C01

pub fn c01_item<F: Fam>(ctx: &Ctx, ast: &Ast) {
    let (pkt, bytes) = match build::<F>(ctx, "C01", ast) {
        Some(x) => x,
        None => return,
    };
    ctx.state(1);
    let n = bytes.len();
    let want: Out<F> = Out::Pkt(pkt.clone());
    let bad = |step: &str, got: String| {
        ctx.violation(key::<F>("C01", ast, step), format!("{step}: decoding the encoding {} gives {got}, expected the original packet", hex_short(&bytes)), case_of::<F>(ast));
    };
    // blocking
    let b = front::blocking::<F>(&bytes);
    ctx.trans(1);
    if b != want {
        bad("blocking", b.short());
    }
    // async, always ready
    let (a, used) = front::async_whole::<F>(&bytes);
    ctx.trans(1);
    if a != want || used != n {
        bad("async", format!("{} after {used} of {n} bytes", a.short()));
    }
    // async under delivery schedules
    if n <= 4096 {
        let sched: Vec<Vec<usize>> = if n <= 10 {
            front::all_cut_sets(n).collect()
        } else {
            let hl = dec::header(&bytes).map(|h| h.2).unwrap_or(2);
            front::bounded_cut_sets(&front::cut_candidates(n, hl, 48), if ctx.thorough() { 2 } else { 1 })
        };
        for cuts in &sched {
            for pend in [false, true] {
                let r = front::async_chunked::<F>(&bytes, cuts, pend);
                ctx.trans(1);
                if r.out() != want || r.consumed != n || r.spurious_pending || r.swallowed_pending {
                    ctx.violation(
                        key::<F>("C01", ast, "async-schedule"),
                        format!("async decoder under cuts {cuts:?} pending_between={pend}: {} consumed {} of {n} spurious_pending={} swallowed_pending={}", r.out().short(), r.consumed, r.spurious_pending, r.swallowed_pending),
                        json!({"kind":"value-schedule","family":F::NAME,"ast":astjson::to_json(ast),"front":"async","cuts":cuts,"pending":pend}),
                    );
                    break;
                }
            }
        }
        ctx.count("async_schedules", sched.len() as u64 * 2);
        // the poll decoder under the same delivery schedules (future kept / re-created at every Pending)
        let hl0 = dec::header(&bytes).map(|h| h.2).unwrap_or(2);
        for cuts in &sched {
            for pend in [false, true] {
                let r = front::poll_chunked::<F>(&bytes, cuts, pend, pend, n);
                ctx.trans(r.polls as u64);
                if r.out() != want || r.total() != Some(n) || r.consumed != n || r.body() != Some(&bytes[hl0..]) || r.spurious_pending || r.swallowed_pending || r.uninit_exposed {
                    ctx.violation(
                        key::<F>("C01", ast, "poll-schedule"),
                        format!("poll decoder under cuts {cuts:?} pending_between={pend}: {} total {:?} consumed {} of {n}, body equal: {}", r.out().short(), r.total(), r.consumed, r.body() == Some(&bytes[hl0..])),
                        json!({"kind":"value-schedule","family":F::NAME,"ast":astjson::to_json(ast),"front":"poll","cuts":cuts,"pending":pend}),
                    );
                    break;
                }
            }
        }
        ctx.count("poll_schedules", sched.len() as u64 * 2);
    }
    // poll decoder: packet, exact total, raw body
    let p = front::poll_whole::<F>(&bytes);
    ctx.trans(1);
    let hl = match dec::header(&bytes) {
        Ok(h) => h.2,
        Err(_) => {
            bad("header", "an unparsable fixed header".into());
            return;
        }
    };
    if p.out() != want {
        bad("poll", p.out().short());
    } else if p.total() != Some(n) || p.body() != Some(&bytes[hl..]) || p.consumed != n || p.uninit_exposed {
        ctx.violation(
            key::<F>("C01", ast, "poll-total-body"),
            format!(
                "poll decoder on {}: total {:?} (encoding has {n} bytes), body {} the bytes after the {hl}-byte header, consumed {}, uninit_exposed={}",
                hex_short(&bytes),
                p.total(),
                if p.body() == Some(&bytes[hl..]) { "equals" } else { "differs from" },
                p.consumed,
                p.uninit_exposed
            ),
            case_of::<F>(ast),
        );
    }
    ctx.eval(4);
    ctx.trace(4);
}

fn run_family<F: Fam>(ctx: &Ctx, prop: &str, item: &(dyn Fn(&Ctx, &Ast) + Sync)) {
    let (u, nval) = universe(F::FAMILY, ctx);
    ctx.count(&format!("{}_U_val", F::NAME), nval as u64);
    ctx.count(&format!("{}_U_size", F::NAME), (u.len() - nval) as u64);
    let _ = prop;
    for_items(&u, &|_, a| item(ctx, a));
    // non-trivial = values with at least one optional field / property / list element present
    let nt = u.iter().filter(|a| nontrivial(a)).count();
    ctx.nontriv(nt as u64);
    for a in u.iter().filter(|a| nontrivial(a)).step_by((nt / 3).max(1)).take(3) {
        if let Some(b) = enc::encode_bytes(F::FAMILY, a) {
            ctx.sample(json!({"family": F::NAME, "value": short_debug(a), "reference_encoding": hex_short(&b)}));
        }
    }
}

pub fn short_debug(a: &Ast) -> String {
    let s = format!("{:?}", a);
    if s.len() > 400 {
        let cut = s.char_indices().take(400).last().map(|x| x.0).unwrap_or(0);
        format!("{}…", &s[..cut])
    } else {
        s
    }
}

fn nontrivial(a: &Ast) -> bool {
    match a {
        Ast::Connect { props, will, username, password, .. } => !props.is_empty() || will.is_some() || username.is_some() || password.is_some(),
        Ast::Connack { props, code, .. } => !props.is_empty() || *code != 0,
        Ast::Publish { props, pid, payload, .. } => !props.is_empty() || pid.is_some() || !payload.is_empty(),
        Ast::Ack { props, code, .. } => !props.is_empty() || *code != 0,
        Ast::Subscribe { props, topics, .. } => !props.is_empty() || topics.len() > 1,
        Ast::Suback { props, codes, .. } | Ast::Unsuback { props, codes, .. } => !props.is_empty() || !codes.is_empty(),
        Ast::Unsubscribe { props, topics, .. } => !props.is_empty() || topics.len() > 1,
        Ast::Disconnect { props, code } | Ast::Auth { props, code } => !props.is_empty() || *code != 0,
        Ast::Pingreq | Ast::Pingresp => false,
    }
}

pub fn c01(ctx: &Ctx) {
    ctx.set_rule("U_val (all presence subsets, every atom of every field alone and with all others present, full products of the flag groups, user-property lists; thorough: all pairs) ∪ U_size (field lengths 0/1/127/128/16383/16384/65535, remaining lengths on every width boundary) ∪ U_field (every scalar / text / binary slot of a full packet of every type set to every atom of its kind: walking-one, walking-zero and single-byte bit patterns, special code points and look-alike strings, all-byte-value blobs; every flag combination and every reason code behind every single property; every pair of compatible slots holding equal and prefix-related content; thorough: all slot pairs) ∪ U_thresh (every PUBLISH flag combination with payloads of 2^k-1, 2^k, 2^k+1 bytes for k = 5..16, and every bulk field of every packet type at those sizes inside a full packet); each value: encode, blocking decode, async decode (always ready + all compositions for <= 10 bytes, else deviation-bounded cut sets, with and without Pending), poll decode with total and body; oracle = the crate's PartialEq against the original, header width from the reference varint; non-trivial = values with an optional field, property, code or list element present");
    run_family::<V3>(ctx, "C01", &|c, a| c01_item::<V3>(c, a));
    run_family::<V5>(ctx, "C01", &|c, a| c01_item::<V5>(c, a));
    // the round trip must not depend on what the thread encoded or decoded before
    crate::checks::history::decode_history::<V3>(ctx, "C01");
    crate::checks::history::decode_history::<V5>(ctx, "C01");
    crate::checks::history::encode_history::<V3>(ctx, "C01");
    crate::checks::history::encode_history::<V5>(ctx, "C01");
}

// ---------------------------------------------------------------------------------------------
// C02

pub fn c02_item<F: Fam>(ctx: &Ctx, idx: usize, ast: &Ast, digest: &AtomicU64) {
    let pkt = match guard(|| F::from_ast(ast)) {
        Ok(Some(p)) => p,
        _ => return, // construction is C01's business
    };
    ctx.state(1);
    let declared = guard(|| F::encode_len(&pkt));
    let enc = guard(|| F::encode(&pkt));
    ctx.trans(2);
    ctx.eval(1);
    ctx.trace(1);
    let bytes = match (&enc, &declared) {
        (Ok(Ok(vb)), Ok(Ok(d))) => {
            let b = vb.as_ref();
            if b.len() != *d {
                ctx.violation(key::<F>("C02", ast, "encode_len"), format!("Packet::encode_len() = {d} but encode() emitted {} bytes ({})", b.len(), hex_short(b)), case_of::<F>(ast));
            }
            b.to_vec()
        }
        (Err(m), _) => {
            ctx.violation(key::<F>("C02", ast, "encode-panic"), format!("encode() panics: {m} @ {}", last_panic_loc()), case_of::<F>(ast));
            return;
        }
        (_, Err(m)) => {
            ctx.violation(key::<F>("C02", ast, "encode_len-panic"), format!("encode_len() panics: {m} @ {}", last_panic_loc()), case_of::<F>(ast));
            return;
        }
        (Ok(Err(e)), _) => {
            ctx.violation(key::<F>("C02", ast, "encode-error"), format!("encode() of a valid packet fails: {e:?}"), case_of::<F>(ast));
            return;
        }
        (_, Ok(Err(e))) => {
            ctx.violation(key::<F>("C02", ast, "encode_len-error"), format!("encode_len() of a valid packet fails: {e:?}"), case_of::<F>(ast));
            return;
        }
    };
    digest.fetch_add(fnv(idx, &bytes), Relaxed);
    // the remaining-length field equals the number of bytes that follow it
    match dec::header(&bytes) {
        Ok((_, rem, hl, minimal)) => {
            if hl + rem as usize != bytes.len() || !minimal {
                ctx.violation(
                    key::<F>("C02", ast, "remaining-length"),
                    format!("remaining-length field says {rem} (minimal={minimal}), {} bytes follow the {hl}-byte header: {}", bytes.len() - hl, hex_short(&bytes)),
                    case_of::<F>(ast),
                );
            }
        }
        Err(e) => ctx.violation(key::<F>("C02", ast, "header"), format!("emitted header cannot be parsed: {e:?} {}", hex_short(&bytes)), case_of::<F>(ast)),
    }
    // every separately encodable part writes what it declares
    match guard(|| F::parts(&pkt)) {
        Err(m) => ctx.violation(key::<F>("C02", ast, "part-panic"), format!("a part's encode/encode_len panics: {m} @ {}", last_panic_loc()), case_of::<F>(ast)),
        Ok(parts) => {
            for p in parts {
                ctx.trans(2);
                match p.written {
                    Ok(w) if w.len() == p.declared => {}
                    Ok(w) => ctx.violation(
                        format!("C02:{}:part:{}", F::NAME, p.name),
                        format!("{}::encode_len() = {} but encode() wrote {} bytes ({})", p.name, p.declared, w.len(), hex_short(&w)),
                        case_of::<F>(ast),
                    ),
                    Err(e) => ctx.violation(format!("C02:{}:part-error:{}", F::NAME, p.name), format!("{}::encode into a Vec failed: {e}", p.name), case_of::<F>(ast)),
                }
            }
        }
    }
}

/// packets too large for the 4-byte remaining length must be refused with an error
fn c02_oversize(ctx: &Ctx) {
    use mqtt_proto::{v3, v5, Pid, QosPid, TopicFilter, TopicName};
    use std::convert::TryFrom;
    use std::sync::Arc;
    let topic = TopicName::try_from("a".to_string()).unwrap();
    let check = |name: &str, f: &(dyn Fn() -> (Result<usize, String>, Result<usize, String>) + Sync)| {
        ctx.eval(1);
        ctx.trace(1);
        ctx.trans(2);
        match guard(f) {
            Err(m) => ctx.violation(format!("C02:oversize:{name}:panic"), format!("{name} larger than the 4-byte remaining length: panic instead of an error: {m} @ {}", last_panic_loc()), json!({"kind":"oversize","name":name})),
            Ok((len, enc)) => {
                if let Ok(n) = len {
                    ctx.violation(format!("C02:oversize:{name}:encode_len-ok"), format!("{name}: encode_len() accepted an oversize packet ({n})"), json!({"kind":"oversize","name":name}));
                }
                if let Ok(n) = enc {
                    ctx.violation(format!("C02:oversize:{name}:encode-ok"), format!("{name}: encode() emitted {n} bytes for an oversize packet"), json!({"kind":"oversize","name":name}));
                }
            }
        }
    };
    fn res3(p: &v3::Packet) -> (Result<usize, String>, Result<usize, String>) {
        (p.encode_len().map_err(|e| format!("{e:?}")), p.encode().map(|b| b.as_ref().len()).map_err(|e| format!("{e:?}")))
    }
    fn res5(p: &v5::Packet) -> (Result<usize, String>, Result<usize, String>) {
        (p.encode_len().map_err(|e| format!("{e:?}")), p.encode().map(|b| b.as_ref().len()).map_err(|e| format!("{e:?}")))
    }
    // payload pushes the remaining length to exactly 2^28 (v3: 2+1+payload)
    let t3 = topic.clone();
    check("v3::Publish(remaining=268435456)", &move || {
        res3(&v3::Packet::Publish(v3::Publish::new(QosPid::Level0, t3.clone(), bytes::Bytes::from(vec![0u8; 268_435_456 - 3]))))
    });
    let t5 = topic.clone();
    check("v5::Publish(remaining=268435456)", &move || {
        res5(&v5::Packet::Publish(v5::Publish::new(QosPid::Level0, t5.clone(), bytes::Bytes::from(vec![0u8; 268_435_456 - 4]))))
    });
    // topic lists built from one shared 65,535-byte filter
    let big = TopicFilter::try_from("a".repeat(65535)).unwrap();
    let pid = Pid::try_from(1).unwrap();
    let b2 = big.clone();
    check("v3::Subscribe(4097 x 65535-byte filters)", &move || {
        res3(&v3::Packet::Subscribe(v3::Subscribe::new(pid, (0..4097).map(|_| (b2.clone(), mqtt_proto::QoS::Level0)).collect())))
    });
    let b2 = big.clone();
    check("v3::Unsubscribe(4097 x 65535-byte filters)", &move || res3(&v3::Packet::Unsubscribe(v3::Unsubscribe::new(pid, (0..4097).map(|_| b2.clone()).collect()))));
    let b2 = big.clone();
    check("v5::Unsubscribe(4097 x 65535-byte filters)", &move || res5(&v5::Packet::Unsubscribe(v5::Unsubscribe::new(pid, (0..4097).map(|_| b2.clone()).collect()))));
    // suback with 2^28 codes
    check("v3::Suback(268435455 codes)", &move || res3(&v3::Packet::Suback(v3::Suback::new(pid, vec![v3::SubscribeReturnCode::MaxLevel0; 268_435_455]))));
    // v5 property sets built from user properties sharing one 65,535-byte string
    let s = Arc::new("a".repeat(65535));
    let e = Arc::new(String::new());
    let ups = |n: usize| -> Vec<v5::UserProperty> { (0..n).map(|_| v5::UserProperty { name: s.clone(), value: e.clone() }).collect() };
    let n = 4100; // 4100 * 65540 > 2^28
    {
        let u = ups(n);
        check("v5::PubackProperties(property length >= 2^28)", &move || {
            let mut a = v5::Puback::new(pid, v5::PubackReasonCode::NotAuthorized);
            a.properties.user_properties = u.clone();
            res5(&a.into())
        });
        let u = ups(n);
        check("v5::ConnackProperties(property length >= 2^28)", &move || {
            let mut a = v5::Connack::new(false, v5::ConnectReasonCode::Success);
            a.properties.user_properties = u.clone();
            res5(&a.into())
        });
        let u = ups(n);
        let tp = topic.clone();
        check("v5::PublishProperties(property length >= 2^28)", &move || {
            let mut a = v5::Publish::new(QosPid::Level0, tp.clone(), bytes::Bytes::new());
            a.properties.user_properties = u.clone();
            res5(&a.into())
        });
        let u = ups(n);
        check("v5::DisconnectProperties(property length >= 2^28)", &move || {
            let mut a = v5::Disconnect::new_normal();
            a.properties.user_properties = u.clone();
            res5(&a.into())
        });
        let u = ups(n);
        check("v5::ConnectProperties(property length >= 2^28)", &move || {
            let mut a = v5::Connect::new(Arc::new("c".to_string()), 1);
            a.properties.user_properties = u.clone();
            res5(&a.into())
        });
        let u = ups(n);
        let bf = TopicFilter::try_from("a".to_string()).unwrap();
        check("v5::SubscribeProperties(property length >= 2^28)", &move || {
            let mut a = v5::Subscribe::new(pid, vec![(bf.clone(), v5::SubscriptionOptions::new(mqtt_proto::QoS::Level0))]);
            a.properties.user_properties = u.clone();
            res5(&a.into())
        });
        // just below the limit must still be refused at the packet level only if the total exceeds it:
        // 4095 * 65540 = 268,386,300 < 2^28 - must encode fine
    }
}

pub fn c02(ctx: &Ctx) {
    ctx.set_rule("U_val ∪ U_size ∪ U_field ∪ U_thresh, every value and every separately encodable part of it (bodies, property sets, will, will properties, protocol): Packet::encode_len = bytes emitted, remaining-length field (reference varint reader) = bytes after it and minimal, part encode_len = bytes written into a Vec; identical encodings in both build profiles (digest compared by the driver); oversize packets (remaining length 2^28, shared 65,535-byte strings) must yield an error, not a panic and not bytes");
    for fam in [Family::V3, Family::V5] {
        let (u, nval) = universe(fam, ctx);
        let digest = AtomicU64::new(0);
        match fam {
            Family::V3 => for_items(&u, &|i, a| c02_item::<V3>(ctx, i, a, &digest)),
            Family::V5 => for_items(&u, &|i, a| c02_item::<V5>(ctx, i, a, &digest)),
        }
        let name = if fam == Family::V3 { "v3" } else { "v5" };
        ctx.count(&format!("{name}_U_val"), nval as u64);
        ctx.count(&format!("{name}_U_size"), (u.len() - nval) as u64);
        ctx.info(&format!("cross_profile_digest_{name}"), json!(format!("{:016x}", digest.load(Relaxed))));
        ctx.nontriv(u.iter().filter(|a| nontrivial(a)).count() as u64);
        for a in u.iter().filter(|a| nontrivial(a)).take(2) {
            if let Some(b) = enc::encode_bytes(fam, a) {
                ctx.sample(json!({"family": name, "value": short_debug(a), "reference_encoding": hex_short(&b)}));
            }
        }
    }
    c02_oversize(ctx);
    ctx.sample(json!({"oversize": "v3 PUBLISH with a payload that makes the remaining length 268,435,456", "expected": "Err(InvalidVarByteInt) from encode and encode_len"}));
}

// ---------------------------------------------------------------------------------------------
// C10

#[derive(Default)]
struct Seen {
    props: BTreeSet<(u8, u8)>,
    codes: BTreeSet<(u8, u8)>,
    types: BTreeSet<u8>,
}

fn note_props(seen: &mut Seen, owner: u8, p: &mqtt_ref::Props) {
    for x in p {
        seen.props.insert((owner, x.id));
    }
}

pub fn c10_item<F: Fam>(ctx: &Ctx, ast: &Ast, seen: &Mutex<Seen>) {
    let pkt = match guard(|| F::from_ast(ast)) {
        Ok(Some(p)) => p,
        _ => return,
    };
    let bytes = match guard(|| F::encode(&pkt)) {
        Ok(Ok(vb)) => vb.as_ref().to_vec(),
        _ => return, // C01 / C02 report encode failures
    };
    ctx.state(1);
    ctx.trans(1);
    ctx.eval(1);
    ctx.trace(1);
    match dec::decode(F::FAMILY, &bytes) {
        Verdict::Accept { ast: got, .. } => {
            if got.canon() != ast.canon() {
                ctx.violation(
                    key::<F>("C10", ast, "fields-differ"),
                    format!("independent decoder reads {} from {}; the value encoded was {}", short_debug(&got.canon()), hex_short(&bytes), short_debug(&ast.canon())),
                    case_of::<F>(ast),
                );
            }
        }
        other => ctx.violation(
            key::<F>("C10", ast, "not-conformant"),
            format!("independent decoder classifies the emitted bytes {} as {:?}", hex_short(&bytes), other),
            case_of::<F>(ast),
        ),
    }
    // coverage bookkeeping
    use mqtt_ref::ast::ptype;
    let mut s = seen.lock().unwrap();
    s.types.insert(ast.ptype());
    match ast {
        Ast::Connect { props, will, .. } => {
            note_props(&mut s, ptype::CONNECT, props);
            if let Some(w) = will {
                note_props(&mut s, ptype::WILL, &w.props);
            }
        }
        Ast::Connack { code, props, .. } => {
            s.codes.insert((ptype::CONNACK, *code));
            note_props(&mut s, ptype::CONNACK, props);
        }
        Ast::Publish { props, .. } => note_props(&mut s, ptype::PUBLISH, props),
        Ast::Ack { typ, code, props, .. } => {
            s.codes.insert((*typ, *code));
            note_props(&mut s, *typ, props);
        }
        Ast::Subscribe { props, .. } => note_props(&mut s, ptype::SUBSCRIBE, props),
        Ast::Suback { codes, props, .. } => {
            for c in codes {
                s.codes.insert((ptype::SUBACK, *c));
            }
            note_props(&mut s, ptype::SUBACK, props);
        }
        Ast::Unsubscribe { props, .. } => note_props(&mut s, ptype::UNSUBSCRIBE, props),
        Ast::Unsuback { codes, props, .. } => {
            for c in codes {
                s.codes.insert((ptype::UNSUBACK, *c));
            }
            note_props(&mut s, ptype::UNSUBACK, props);
        }
        Ast::Disconnect { code, props } => {
            s.codes.insert((ptype::DISCONNECT, *code));
            note_props(&mut s, ptype::DISCONNECT, props);
        }
        Ast::Auth { code, props } => {
            s.codes.insert((ptype::AUTH, *code));
            note_props(&mut s, ptype::AUTH, props);
        }
        _ => {}
    }
}

pub fn c10(ctx: &Ctx) {
    ctx.set_rule("U_val ∪ U_size ∪ U_field ∪ U_thresh (v3.1, v3.1.1, v5.0): the emitted bytes go through the independent reference decoder (mqtt-ref::dec, written from the OASIS texts; binding to the crate's enums by variant name only); Accept with exactly the original field values is required; the run fails as a machinery error if some (packet type, property) or (packet type, reason code) entry of the specification tables was never exercised; non-trivial = values with optional content");
    let mut missing: Vec<String> = Vec::new();
    for fam in [Family::V3, Family::V5] {
        let (u, _) = universe(fam, ctx);
        let seen = Mutex::new(Seen::default());
        match fam {
            Family::V3 => for_items(&u, &|_, a| c10_item::<V3>(ctx, a, &seen)),
            Family::V5 => for_items(&u, &|_, a| c10_item::<V5>(ctx, a, &seen)),
        }
        ctx.nontriv(u.iter().filter(|a| nontrivial(a)).count() as u64);
        let s = seen.into_inner().unwrap();
        for t in gen::types_of(fam) {
            if !s.types.contains(&t) {
                missing.push(format!("{fam:?} packet type {t}"));
            }
        }
        if fam == Family::V5 {
            for d in mqtt_ref::tables::PROPS {
                for o in d.allowed {
                    if !s.props.contains(&(*o, d.id)) {
                        missing.push(format!("property {:#04x} in owner {}", d.id, o));
                    }
                }
            }
            for t in [2u8, 4, 5, 6, 7, 9, 11, 14, 15] {
                for c in mqtt_ref::tables::reason_codes(t) {
                    if !s.codes.contains(&(t, *c)) {
                        missing.push(format!("reason code {:#04x} of packet type {}", c, t));
                    }
                }
            }
            ctx.count("v5_type_property_pairs_seen", s.props.len() as u64);
            ctx.count("v5_type_code_pairs_seen", s.codes.len() as u64);
        } else {
            for c in mqtt_ref::tables::V3_CONNACK_CODES {
                if !s.codes.contains(&(2, *c)) {
                    missing.push(format!("v3 connack code {c}"));
                }
            }
            for c in mqtt_ref::tables::V3_SUBACK_CODES {
                if !s.codes.contains(&(9, *c)) {
                    missing.push(format!("v3 suback code {c}"));
                }
            }
        }
        for a in u.iter().filter(|a| nontrivial(a)).step_by(997).take(2) {
            if let Some(b) = enc::encode_bytes(fam, a) {
                ctx.sample(json!({"family": format!("{fam:?}"), "value": short_debug(a), "reference_encoding": hex_short(&b)}));
            }
        }
    }
    if !missing.is_empty() {
        ctx.info("machinery_error", json!(format!("specification table entries never exercised: {:?}", missing)));
    }
}

// ---------------------------------------------------------------------------------------------
// C09

/// sink that accepts the stream in segments (cut set), optionally answering Pending at each boundary
fn writer_for_cuts(n: usize, cuts: &[usize], pending: bool) -> ScriptedWriter {
    let mut script = Vec::new();
    let mut prev = 0usize;
    let mut ends: Vec<usize> = cuts.iter().copied().filter(|c| *c > 0 && *c < n).collect();
    ends.push(n);
    for e in ends {
        if e > prev {
            if pending && prev > 0 {
                script.push(WA::Pending);
            }
            script.push(WA::Accept(e - prev));
            prev = e;
        }
    }
    if pending {
        script.insert(0, WA::Pending);
    }
    ScriptedWriter::new(script, WA::Accept(usize::MAX))
}

fn encode_async_under<F: Fam>(pkt: &F::Packet, mut w: ScriptedWriter) -> (Option<Result<(), F::Error>>, Option<String>, Vec<u8>, bool) {
    let mut spurious = false;
    let mut swallowed = false;
    let r = guard(|| {
        let wp: *const ScriptedWriter = &w;
        let fut = F::encode_async(pkt, &mut w);
        let mut fut = std::pin::pin!(fut);
        drive(fut.as_mut(), 1 << 16, || unsafe { (*wp).pendings }, &mut spurious, &mut swallowed).out
    });
    match r {
        Ok(x) => (x, None, w.got, spurious || swallowed),
        Err(m) => (None, Some(m), w.got, spurious || swallowed),
    }
}

pub fn c09_item<F: Fam>(ctx: &Ctx, ast: &Ast, full_schedules: bool) {
    let pkt = match guard(|| F::from_ast(ast)) {
        Ok(Some(p)) => p,
        _ => return,
    };
    let e1 = guard(|| F::encode(&pkt));
    let e2 = guard(|| F::encode(&pkt));
    ctx.state(1);
    ctx.trans(2);
    let vb = match (e1, e2) {
        (Ok(Ok(a)), Ok(Ok(b))) => {
            if a != b {
                ctx.violation(key::<F>("C09", ast, "repeat"), format!("two invocations of encode() differ: {} vs {}", hex_short(a.as_ref()), hex_short(b.as_ref())), case_of::<F>(ast));
            }
            a
        }
        _ => return, // encode failures are reported by C01/C02
    };
    let bytes = vb.as_ref().to_vec();
    let n = bytes.len();
    // the container exposes exactly its bytes
    let inner: &[u8] = match &vb {
        VarBytes::Dynamic(v) => v,
        VarBytes::Fixed2(a) => a,
        VarBytes::Fixed4(a) => a,
    };
    if inner != &bytes[..] {
        ctx.violation(key::<F>("C09", ast, "container"), "VarBytes::as_ref differs from the stored bytes".into(), case_of::<F>(ast));
    }
    // packet = control byte ++ varint(declared body length) ++ streamed body
    let mut body = Vec::new();
    let streamed = match guard(|| F::body(&pkt, &mut body)) {
        Ok(x) => x,
        Err(m) => {
            ctx.violation(key::<F>("C09", ast, "stream-panic"), format!("streaming the body into a Vec panics: {m} @ {}", last_panic_loc()), case_of::<F>(ast));
            None
        }
    };
    if let Some((control, declared, r)) = streamed {
        ctx.trans(1);
        let mut expect = vec![control];
        if declared as u64 <= num::VARINT_MAX as u64 {
            expect.extend_from_slice(&num::varint(declared as u32));
        }
        expect.extend_from_slice(&body);
        if r.is_err() || expect != bytes {
            ctx.violation(
                key::<F>("C09", ast, "header-plus-body"),
                format!("encode() = {} but control byte ++ varint(encode_len) ++ streamed body = {} (body result {:?})", hex_short(&bytes), hex_short(&expect), r),
                case_of::<F>(ast),
            );
        }
        // streaming into sinks that accept one byte per call, and that interrupt once at call i
        if n <= 70_000 {
            let mut w = ScriptedWriter::new(vec![], WA::Accept(1));
            let r = guard(|| F::body(&pkt, &mut w).map(|x| x.2));
            ctx.trans(1);
            if !matches!(r, Ok(Some(Ok(())))) || w.got != body {
                ctx.violation(key::<F>("C09", ast, "stream-1-byte-sink"), format!("body streamed into a 1-byte-per-write sink: {:?}, {} of {} bytes equal", r, common_prefix(&w.got, &body), body.len()), case_of::<F>(ast));
            }
        }
        if full_schedules && n <= 300 {
            let calls = {
                let mut w = ScriptedWriter::new(vec![], WA::Accept(usize::MAX));
                let _ = F::body(&pkt, &mut w);
                w.calls
            };
            for i in 0..calls.min(64) {
                for dev in [WA::Err(std::io::ErrorKind::Interrupted), WA::Accept(1)] {
                    let mut script = vec![WA::Accept(usize::MAX); i];
                    script.push(dev);
                    let mut w = ScriptedWriter::new(script, WA::Accept(usize::MAX));
                    let r = guard(|| F::body(&pkt, &mut w).map(|x| x.2));
                    ctx.trans(1);
                    if !matches!(r, Ok(Some(Ok(())))) || w.got != body {
                        ctx.violation(
                            key::<F>("C09", ast, "stream-deviation"),
                            format!("body streamed into a sink answering {dev:?} at call {i}: {:?}, got {} expected {}", r, hex_short(&w.got), hex_short(&body)),
                            json!({"kind":"value-write","family":F::NAME,"ast":astjson::to_json(ast),"call":i,"dev":format!("{dev:?}")}),
                        );
                        break;
                    }
                }
            }
        }
    }
    // async encoder under sink schedules
    let scheds: Vec<(Vec<usize>, bool)> = if !full_schedules {
        vec![(vec![], false)]
    } else if n <= 10 {
        front::all_cut_sets(n).flat_map(|c| [(c.clone(), false), (c, true)]).collect()
    } else if n <= 20_000 {
        let hl = dec::header(&bytes).map(|h| h.2).unwrap_or(2);
        front::bounded_cut_sets(&front::cut_candidates(n, hl, 40), if ctx.thorough() { 3 } else { 2 }).into_iter().flat_map(|c| [(c.clone(), false), (c, true)]).collect()
    } else {
        vec![(vec![], false), (vec![1], true), (vec![n - 1], true)]
    };
    for (cuts, pend) in &scheds {
        let w = writer_for_cuts(n, cuts, *pend);
        let (r, panic, got, pending_mismatch) = encode_async_under::<F>(&pkt, w);
        ctx.trans(1);
        if panic.is_some() || !matches!(r, Some(Ok(()))) || got != bytes || pending_mismatch {
            ctx.violation(
                key::<F>("C09", ast, "async-sink"),
                format!("encode_async with sink cuts {cuts:?} pending={pend}: result {:?} panic {:?}, sink holds {} ({} bytes), encode() = {} ({n} bytes)", r, panic, hex_short(&got), got.len(), hex_short(&bytes)),
                json!({"kind":"value-sink","family":F::NAME,"ast":astjson::to_json(ast),"cuts":cuts,"pending":pend}),
            );
            break;
        }
    }
    ctx.count("sink_schedules", scheds.len() as u64);
    ctx.eval(1 + scheds.len() as u64);
    ctx.trace(1 + scheds.len() as u64);
}

fn common_prefix(a: &[u8], b: &[u8]) -> usize {
    a.iter().zip(b.iter()).take_while(|(x, y)| x == y).count()
}

pub fn c09(ctx: &Ctx) {
    ctx.set_rule("U_small ∪ U_size(<= 16384) ∪ U_thresh(encodings <= 4300 bytes) under all sink schedules (all compositions of the output for <= 10 bytes with and without Pending at every boundary; else every cut set of <= 2 (thorough 3) cuts from the boundary positions), U_val ∪ U_field ∪ U_thresh under the always-ready sink; encode() twice, VarBytes contents, control byte ++ reference varint(body.encode_len()) ++ streamed body, body streamed into 1-byte sinks and sinks that answer Interrupted / a short write at call i; non-trivial = values with optional content");
    fn fam<F: Fam>(ctx: &Ctx) {
        let mut small = u_small(F::FAMILY);
        small.extend(gen::u_size(F::FAMILY, &[0, 1, 127, 128], &[127, 128, 16383, 16384]));
        // size thresholds x flags under sink schedules too (bulk fields up to 4097 bytes)
        small.extend(mqtt_ref::genfield::u_thresh(F::FAMILY).into_iter().filter(|a| enc::encode_bytes(F::FAMILY, a).map(|b| b.len() <= 4300).unwrap_or(false)));
        ctx.count(&format!("{}_full_schedule_values", F::NAME), small.len() as u64);
        small.par_iter().for_each(|a| c09_item::<F>(ctx, a, true));
        let (u, _) = universe(F::FAMILY, ctx);
        ctx.count(&format!("{}_single_schedule_values", F::NAME), u.len() as u64);
        for_items(&u, &|_, a| c09_item::<F>(ctx, a, false));
        ctx.nontriv(small.iter().chain(u.iter()).filter(|a| nontrivial(a)).count() as u64);
        for a in small.iter().filter(|a| nontrivial(a)).step_by(211).take(3) {
            if let Some(b) = enc::encode_bytes(F::FAMILY, a) {
                ctx.sample(json!({"family": F::NAME, "value": short_debug(a), "reference_encoding": hex_short(&b), "sink_schedules": "all compositions / bounded cut sets"}));
            }
        }
    }
    fam::<V3>(ctx);
    fam::<V5>(ctx);
    // repeated invocations: every ordered pair of encodes on one thread against fresh-thread baselines
    crate::checks::history::encode_history::<V3>(ctx, "C09");
    crate::checks::history::encode_history::<V5>(ctx, "C09");
}

// ---------------------------------------------------------------------------------------------
// C07

pub fn c07_item<F: Fam>(ctx: &Ctx, ast: &Ast, suffixes: Option<&[Vec<u8>]>) {
    let pkt = match guard(|| F::from_ast(ast)) {
        Ok(Some(p)) => p,
        _ => return,
    };
    let bytes = match guard(|| F::encode(&pkt)) {
        Ok(Ok(vb)) => vb.as_ref().to_vec(),
        _ => return,
    };
    ctx.state(1);
    let n = bytes.len();
    let hl = dec::header(&bytes).map(|h| h.2).unwrap_or(2);
    let cuts: Vec<usize> = if n <= 600 {
        (0..n).collect()
    } else {
        let mut c: Vec<usize> = (0..64.min(n)).collect();
        c.extend(front::cut_candidates(n, hl, 0));
        c.extend((n.saturating_sub(64))..n);
        c.sort();
        c.dedup();
        c
    };
    let incomplete: Out<F> = Out::Incomplete;
    for k in &cuts {
        let pre = &bytes[..*k];
        let b = front::blocking::<F>(pre);
        let (a, _) = front::async_whole::<F>(pre);
        let (p, _, _) = front::poll_slice::<F>(pre);
        ctx.trans(3);
        let mut bad: Option<(&str, String)> = None;
        if b != incomplete {
            bad = Some(("blocking", b.short()));
        } else if a != incomplete {
            bad = Some(("async", a.short()));
        } else if p != incomplete {
            bad = Some(("poll", p.short()));
        } else if n <= 80 {
            // byte-wise delivery up to the cut, then end of stream
            let a2 = front::async_scripted::<F>(pre, vec![], crate::env::RA::Deliver(1)).out();
            let p2 = front::poll_scripted::<F>(pre, vec![], crate::env::RA::Deliver(1), false, usize::MAX).out();
            ctx.trans(2);
            if a2 != incomplete {
                bad = Some(("async-bytewise", a2.short()));
            } else if p2 != incomplete {
                bad = Some(("poll-bytewise", p2.short()));
            }
        }
        if let Some((front, got)) = bad {
            ctx.violation(
                key::<F>("C07", ast, &format!("prefix:{front}")),
                format!("{front} decoder on the first {k} of {n} bytes of {} returns {got}, expected incomplete", hex_short(&bytes)),
                json!({"kind":"value-cut","family":F::NAME,"ast":astjson::to_json(ast),"cut":k}),
            );
            break;
        }
    }
    ctx.eval(cuts.len() as u64 * 3);
    ctx.trace(cuts.len() as u64 * 3);
    if let Some(sfx) = suffixes {
        let want: Out<F> = Out::Pkt(pkt.clone());
        let mut buf = Vec::with_capacity(n + 32);
        for s in sfx {
            buf.clear();
            buf.extend_from_slice(&bytes);
            buf.extend_from_slice(s);
            let b = front::blocking::<F>(&buf);
            let (a, used) = front::async_whole::<F>(&buf);
            let (p, tb, pused) = front::poll_slice::<F>(&buf);
            ctx.trans(3);
            if b != want || a != want || used != n || p != want || pused != n || tb.map(|x| x.0) != Some(n) {
                ctx.violation(
                    key::<F>("C07", ast, "suffix"),
                    format!(
                        "encoding {} followed by {}: blocking {}, async {} (consumed {used}), poll {} (consumed {pused}, total {:?}); expected the same packet and {n} bytes consumed",
                        hex_short(&bytes),
                        hex_short(s),
                        b.short(),
                        a.short(),
                        p.short(),
                        tb
                    ),
                    json!({"kind":"value-suffix","family":F::NAME,"ast":astjson::to_json(ast),"suffix":crate::ev::hex(s)}),
                );
                break;
            }
        }
        ctx.eval(sfx.len() as u64 * 3);
        ctx.trace(sfx.len() as u64 * 3);
    }
}

pub fn suffix_set(fam: Family) -> Vec<Vec<u8>> {
    let mut s: Vec<Vec<u8>> = (0..=255u8).map(|b| vec![b]).collect();
    for a in B16 {
        for b in B16 {
            s.push(vec![a, b]);
        }
    }
    for q in u_tiny(fam) {
        if let Some(b) = enc::encode_bytes(fam, &q) {
            s.push(b);
        }
    }
    s.push(vec![0xFF; 8]);
    s
}

pub fn c07(ctx: &Ctx) {
    ctx.set_rule("every value of U_val ∪ U_size ∪ U_field ∪ U_thresh and EVERY cut position 0..len of its encoding (boundary positions only for encodings > 600 bytes): blocking on the prefix, async and poll on a transport that ends there (whole and byte-wise for short ones) must report incomplete; every such value (encodings < 100,000 bytes) x the suffixes {00, c0 00, a PUBLISH, ff*8} and U_small x {all 256 one-byte suffixes, B16^2, every U_tiny encoding, ff*8}: same packet, exact consumption; non-trivial = values with optional content");
    fn fam<F: Fam>(ctx: &Ctx) {
        let (u, _) = universe(F::FAMILY, ctx);
        // every value of the universes with a short suffix list (values whose encoding stays below 100,000 bytes)
        let few: Vec<Vec<u8>> = vec![vec![0x00], vec![0xC0, 0x00], vec![0x30, 0x03, 0x00, 0x01, 0x61], vec![0xFF; 8]];
        for_items(&u, &|_, a| c07_item::<F>(ctx, a, if approx_size(a) < 90_000 { Some(&few) } else { None }));
        let sfx = suffix_set(F::FAMILY);
        let small = u_small(F::FAMILY);
        ctx.count(&format!("{}_suffix_values", F::NAME), small.len() as u64);
        ctx.count("suffixes", sfx.len() as u64);
        small.par_iter().for_each(|a| c07_item::<F>(ctx, a, Some(&sfx)));
        ctx.nontriv(u.iter().filter(|a| nontrivial(a)).count() as u64);
        for a in small.iter().filter(|a| nontrivial(a)).step_by(301).take(3) {
            if let Some(b) = enc::encode_bytes(F::FAMILY, a) {
                ctx.sample(json!({"family": F::NAME, "encoding": hex_short(&b), "cuts": format!("0..{}", b.len()), "suffixes": sfx.len()}));
            }
        }
    }
    fam::<V3>(ctx);
    fam::<V5>(ctx);
}

pub fn c10_item_pub<F: Fam>(ctx: &Ctx, ast: &Ast) {
    let seen = Mutex::new(Seen::default());
    c10_item::<F>(ctx, ast, &seen);
}

pub fn c02_oversize_pub(ctx: &Ctx) {
    c02_oversize(ctx);
}
