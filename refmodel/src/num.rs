//! Variable byte integers (MQTT 5.0 §1.5.5 / 3.1.1 §2.2.3), length helpers, packet identifier cycle.

pub const VARINT_MAX: u32 = 268_435_455;

/// Minimal encoding of `v` (`v <= VARINT_MAX`), by the algorithm printed in the specification.
pub fn varint(v: u32) -> Vec<u8> {
    assert!(v <= VARINT_MAX);
    let mut x = v;
    let mut out = Vec::new();
    loop {
        let mut b = (x % 128) as u8;
        x /= 128;
        if x > 0 {
            b |= 0x80;
        }
        out.push(b);
        if x == 0 {
            break;
        }
    }
    out
}

/// Encoding of `v` with `pad` extra (non-minimal) bytes: continuation bits set on the
/// minimal form followed by `pad-1` bytes `0x80` and a final `0x00`. `None` if longer than 4 bytes.
pub fn varint_padded(v: u32, pad: u8) -> Option<Vec<u8>> {
    let mut out = varint(v);
    if pad == 0 {
        return Some(out);
    }
    let last = out.len() - 1;
    out[last] |= 0x80;
    for _ in 1..pad {
        out.push(0x80);
    }
    out.push(0x00);
    if out.len() > 4 {
        None
    } else {
        Some(out)
    }
}

pub fn varint_len(v: u32) -> usize {
    if v < 128 {
        1
    } else if v < 128 * 128 {
        2
    } else if v < 128 * 128 * 128 {
        3
    } else {
        4
    }
}

#[derive(Debug, Clone, Copy, PartialEq, Eq)]
pub enum VarIntErr {
    /// input ended inside the integer
    Truncated,
    /// a fifth byte would be needed (continuation bit set on the fourth byte)
    TooLong,
}

/// Decode one variable byte integer from the front of `b`: (value, bytes used, minimal?).
pub fn read_varint(b: &[u8]) -> Result<(u32, usize, bool), VarIntErr> {
    let mut mult: u32 = 1;
    let mut value: u32 = 0;
    for i in 0..4 {
        let byte = *b.get(i).ok_or(VarIntErr::Truncated)?;
        value += (byte & 0x7F) as u32 * mult;
        if byte & 0x80 == 0 {
            let used = i + 1;
            return Ok((value, used, used == varint_len(value)));
        }
        mult *= 128;
    }
    Err(VarIntErr::TooLong)
}

/// total packet size for a remaining length
pub fn total_len(remaining: u64) -> Option<u64> {
    if remaining > VARINT_MAX as u64 {
        None
    } else {
        Some(1 + varint_len(remaining as u32) as u64 + remaining)
    }
}

/// Packet identifiers form the cycle 1,2,…,65535,1,…  `add(p,u)` steps `u` times forward.
pub fn pid_add(p: u16, u: u16) -> u16 {
    assert!(p != 0);
    (((p as u64 - 1) + u as u64) % 65535) as u16 + 1
}
pub fn pid_sub(p: u16, u: u16) -> u16 {
    assert!(p != 0);
    (((p as u64 - 1) + 65535 * 2 - u as u64) % 65535) as u16 + 1
}

#[cfg(test)]
mod tests {
    use super::*;
    #[test]
    fn roundtrip() {
        for v in [0u32, 1, 127, 128, 16383, 16384, 2097151, 2097152, VARINT_MAX] {
            let e = varint(v);
            assert_eq!(e.len(), varint_len(v));
            assert_eq!(read_varint(&e), Ok((v, e.len(), true)));
            for pad in 1..=3u8 {
                if let Some(p) = varint_padded(v, pad) {
                    assert_eq!(read_varint(&p), Ok((v, p.len(), false)));
                }
            }
        }
        assert_eq!(read_varint(&[0xff, 0xff, 0xff, 0xff, 0x01]), Err(VarIntErr::TooLong));
        assert_eq!(read_varint(&[0xff, 0xff]), Err(VarIntErr::Truncated));
        assert_eq!(pid_add(65535, 1), 1);
        assert_eq!(pid_sub(1, 1), 65535);
        assert_eq!(pid_add(1, 65535), 1);
        assert_eq!(pid_sub(5, 65535), 5);
    }
}
