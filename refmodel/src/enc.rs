//! Reference encoder. Produces a *tagged tree* whose length prefixes are computed when the
//! tree is flattened, so that a fault injected into one node keeps every enclosing length
//! (string length, property length, remaining length) consistent.

use crate::ast::ptype::*;
use crate::ast::*;
use crate::num;
use crate::tables;

#[derive(Clone, Copy, Debug, PartialEq, Eq, Hash)]
pub enum StrKind {
    ProtoName,
    ClientId,
    WillTopic,
    Username,
    Topic,
    Filter(usize),
    /// string-valued property `id` of property set `owner`
    Prop(u8, u8),
    PairKey(u8),
    PairVal(u8),
}

#[derive(Clone, Copy, Debug, PartialEq, Eq, Hash)]
pub enum BinKind {
    WillPayload,
    Password,
    Prop(u8, u8),
}

#[derive(Clone, Copy, Debug, PartialEq, Eq, Hash)]
pub enum Tag {
    ProtoLevel,
    ConnectFlags,
    KeepAlive,
    ConnackFlags,
    Pid,
    /// a length-prefixed UTF-8 string (node below is `Len16(Raw)`)
    Str(StrKind),
    /// length-prefixed binary data
    Bin(BinKind),
    /// one reason / return code byte of packet type `.0`, list position `.1`
    Code(u8, usize),
    /// a whole property set (node below is `VarLen(pad, Seq[Prop…])`) owned by packet type / WILL
    PropSet(u8),
    /// one property: `Seq[Raw[id], value]`, owner, id, position in the set
    Prop(u8, u8, usize),
    /// the identifier byte of a property
    PropId(u8, u8),
    /// the value of a byte-valued property
    PropByte(u8, u8),
    /// the value of a variable-byte-integer property (subscription identifier)
    PropVarInt(u8, u8),
    PropU16(u8, u8),
    PropU32(u8, u8),
    /// subscription options byte (v5) / requested QoS byte (v3) of topic `.0`
    SubOpts(usize),
    /// one (filter[, options]) entry of SUBSCRIBE / UNSUBSCRIBE
    TopicEntry(usize),
    /// the list of entries / codes
    List,
    /// PUBLISH payload; `true` if a payload-format-indicator = 1 is present
    Payload(bool),
    /// the will block of CONNECT
    Will,
}

#[derive(Clone, Debug, PartialEq, Eq, Hash)]
pub enum Node {
    Raw(Vec<u8>),
    Tag(Tag, Box<Node>),
    Seq(Vec<Node>),
    /// two-byte big-endian length of the content, then the content
    Len16(Box<Node>),
    /// variable-byte-integer length of the content (with `pad` non-minimal extra bytes), then the content
    VarLen(u8, Box<Node>),
    /// fault injection: the given bytes stand where a length prefix would be, then the content
    LenRaw(Vec<u8>, Box<Node>),
}

#[derive(Clone, Debug, PartialEq, Eq, Hash)]
pub struct Frame {
    pub control: u8,
    /// non-minimal padding of the remaining length
    pub rl_pad: u8,
    /// fault injection: emit these bytes instead of the computed remaining length
    pub rl_raw: Option<Vec<u8>>,
    pub body: Node,
}

impl Node {
    pub fn raw(b: &[u8]) -> Node {
        Node::Raw(b.to_vec())
    }
    pub fn tag(t: Tag, n: Node) -> Node {
        Node::Tag(t, Box::new(n))
    }
    pub fn flatten_into(&self, out: &mut Vec<u8>) -> Option<()> {
        match self {
            Node::Raw(b) => out.extend_from_slice(b),
            Node::Tag(_, n) => n.flatten_into(out)?,
            Node::Seq(v) => {
                for n in v {
                    n.flatten_into(out)?;
                }
            }
            Node::Len16(n) => {
                let mut inner = Vec::new();
                n.flatten_into(&mut inner)?;
                if inner.len() > 65535 {
                    return None;
                }
                out.extend_from_slice(&(inner.len() as u16).to_be_bytes());
                out.extend_from_slice(&inner);
            }
            Node::VarLen(pad, n) => {
                let mut inner = Vec::new();
                n.flatten_into(&mut inner)?;
                if inner.len() as u64 > num::VARINT_MAX as u64 {
                    return None;
                }
                out.extend_from_slice(&num::varint_padded(inner.len() as u32, *pad)?);
                out.extend_from_slice(&inner);
            }
            Node::LenRaw(l, n) => {
                out.extend_from_slice(l);
                n.flatten_into(out)?;
            }
        }
        Some(())
    }
    pub fn flatten(&self) -> Option<Vec<u8>> {
        let mut v = Vec::new();
        self.flatten_into(&mut v)?;
        Some(v)
    }
}

impl Frame {
    /// `None` if some length does not fit its field.
    pub fn bytes(&self) -> Option<Vec<u8>> {
        let body = self.body.flatten()?;
        if body.len() as u64 > num::VARINT_MAX as u64 {
            return None;
        }
        let mut out = vec![self.control];
        match &self.rl_raw {
            Some(r) => out.extend_from_slice(r),
            None => out.extend_from_slice(&num::varint_padded(body.len() as u32, self.rl_pad)?),
        }
        out.extend_from_slice(&body);
        Some(out)
    }
}

#[derive(Clone, Copy, Debug, PartialEq, Eq, Hash, Default)]
pub enum Form {
    /// the shortest legal form (what a canonical encoder emits)
    #[default]
    Canon,
    /// reason code spelled out, property length omitted (only legal without properties; not for AUTH)
    CodeOnly,
    /// reason code and property length spelled out
    Full,
}

#[derive(Clone, Copy, Debug, PartialEq, Eq, Hash, Default)]
pub struct Spell {
    pub form: Form,
    pub rl_pad: u8,
    /// padding of the packet's own property length
    pub plen_pad: u8,
    /// padding of subscription identifier values
    pub subid_pad: u8,
}

fn str_node(k: StrKind, s: &[u8]) -> Node {
    Node::tag(Tag::Str(k), Node::Len16(Box::new(Node::raw(s))))
}
fn bin_node(k: BinKind, s: &[u8]) -> Node {
    Node::tag(Tag::Bin(k), Node::Len16(Box::new(Node::raw(s))))
}
fn pid_node(p: u16) -> Node {
    Node::tag(Tag::Pid, Node::raw(&p.to_be_bytes()))
}

pub fn props_node(owner: u8, props: &Props, plen_pad: u8, subid_pad: u8) -> Node {
    let mut items = Vec::new();
    for (i, p) in props.iter().enumerate() {
        let idn = Node::tag(Tag::PropId(owner, p.id), Node::raw(&[p.id]));
        let val = match &p.val {
            PVal::Byte(b) => Node::tag(Tag::PropByte(owner, p.id), Node::raw(&[*b])),
            PVal::U16(v) => Node::tag(Tag::PropU16(owner, p.id), Node::raw(&v.to_be_bytes())),
            PVal::U32(v) => Node::tag(Tag::PropU32(owner, p.id), Node::raw(&v.to_be_bytes())),
            PVal::VarInt(v) => Node::tag(
                Tag::PropVarInt(owner, p.id),
                Node::Raw(num::varint_padded(*v, subid_pad).unwrap_or_else(|| num::varint(*v))),
            ),
            PVal::Str(s) => str_node(StrKind::Prop(owner, p.id), s.as_bytes()),
            PVal::Bin(b) => bin_node(BinKind::Prop(owner, p.id), b),
            PVal::Pair(k, v) => Node::Seq(vec![
                str_node(StrKind::PairKey(owner), k.as_bytes()),
                str_node(StrKind::PairVal(owner), v.as_bytes()),
            ]),
        };
        items.push(Node::tag(Tag::Prop(owner, p.id, i), Node::Seq(vec![idn, val])));
    }
    Node::tag(Tag::PropSet(owner), Node::VarLen(plen_pad, Box::new(Node::Seq(items))))
}

fn has_pfi_one(props: &Props) -> bool {
    props.iter().any(|p| p.id == tables::PAYLOAD_FORMAT_INDICATOR && p.val == PVal::Byte(1))
}

/// Encode `ast` for `family`. `None` when the requested spelling does not exist for this value
/// (e.g. `CodeOnly` with properties present) or the value does not belong to the family.
pub fn encode(family: Family, ast: &Ast, sp: Spell) -> Option<Frame> {
    let v5 = family == Family::V5;
    let t = ast.ptype();
    let mut flags = tables::fixed_flags(t).unwrap_or(0);
    let only_canon = |sp: &Spell| sp.form == Form::Canon;
    let body: Vec<Node> = match ast {
        Ast::Connect { level, clean, keep_alive, props, client_id, will, username, password } => {
            if !only_canon(&sp) {
                return None;
            }
            if v5 != (*level == 5) {
                return None;
            }
            let name: &[u8] = if *level == 3 { b"MQIsdp" } else { b"MQTT" };
            let mut cf = 0u8;
            if *clean {
                cf |= 0x02;
            }
            if let Some(w) = will {
                cf |= 0x04 | (w.qos << 3);
                if w.retain {
                    cf |= 0x20;
                }
            }
            if password.is_some() {
                cf |= 0x40;
            }
            if username.is_some() {
                cf |= 0x80;
            }
            let mut b = vec![
                str_node(StrKind::ProtoName, name),
                Node::tag(Tag::ProtoLevel, Node::raw(&[*level])),
                Node::tag(Tag::ConnectFlags, Node::raw(&[cf])),
                Node::tag(Tag::KeepAlive, Node::raw(&keep_alive.to_be_bytes())),
            ];
            if v5 {
                b.push(props_node(CONNECT, props, sp.plen_pad, sp.subid_pad));
            } else if !props.is_empty() {
                return None;
            }
            b.push(str_node(StrKind::ClientId, client_id.as_bytes()));
            if let Some(w) = will {
                let mut wb = Vec::new();
                if v5 {
                    wb.push(props_node(WILL, &w.props, 0, 0));
                } else if !w.props.is_empty() {
                    return None;
                }
                wb.push(str_node(StrKind::WillTopic, w.topic.as_bytes()));
                wb.push(bin_node(BinKind::WillPayload, &w.payload));
                b.push(Node::tag(Tag::Will, Node::Seq(wb)));
            }
            if let Some(u) = username {
                b.push(str_node(StrKind::Username, u.as_bytes()));
            }
            if let Some(p) = password {
                b.push(bin_node(BinKind::Password, p));
            }
            b
        }
        Ast::Connack { session_present, code, props } => {
            if !only_canon(&sp) {
                return None;
            }
            let mut b = vec![
                Node::tag(Tag::ConnackFlags, Node::raw(&[*session_present as u8])),
                Node::tag(Tag::Code(CONNACK, 0), Node::raw(&[*code])),
            ];
            if v5 {
                b.push(props_node(CONNACK, props, sp.plen_pad, sp.subid_pad));
            } else if !props.is_empty() {
                return None;
            }
            b
        }
        Ast::Publish { dup, qos, retain, topic, pid, props, payload } => {
            if !only_canon(&sp) {
                return None;
            }
            flags = ((*dup as u8) << 3) | (qos << 1) | (*retain as u8);
            let mut b = vec![str_node(StrKind::Topic, topic.as_bytes())];
            if (*qos > 0) != pid.is_some() {
                return None;
            }
            if let Some(p) = pid {
                b.push(pid_node(*p));
            }
            if v5 {
                b.push(props_node(PUBLISH, props, sp.plen_pad, sp.subid_pad));
            } else if !props.is_empty() {
                return None;
            }
            b.push(Node::tag(Tag::Payload(v5 && has_pfi_one(props)), Node::raw(payload)));
            b
        }
        Ast::Ack { typ, pid, code, props } => {
            let mut b = vec![pid_node(*pid)];
            if v5 {
                let with_code = match sp.form {
                    Form::Canon => *code != 0 || !props.is_empty(),
                    Form::CodeOnly => {
                        if !props.is_empty() {
                            return None;
                        }
                        true
                    }
                    Form::Full => true,
                };
                let with_props = match sp.form {
                    Form::Canon => !props.is_empty(),
                    Form::CodeOnly => false,
                    Form::Full => true,
                };
                if *typ == UNSUBACK {
                    return None;
                }
                if with_code {
                    b.push(Node::tag(Tag::Code(*typ, 0), Node::raw(&[*code])));
                }
                if with_props {
                    b.push(props_node(*typ, props, sp.plen_pad, sp.subid_pad));
                }
            } else {
                if !only_canon(&sp) || *code != 0 || !props.is_empty() {
                    return None;
                }
            }
            b
        }
        Ast::Subscribe { pid, props, topics } => {
            if !only_canon(&sp) {
                return None;
            }
            let mut b = vec![pid_node(*pid)];
            if v5 {
                b.push(props_node(SUBSCRIBE, props, sp.plen_pad, sp.subid_pad));
            } else if !props.is_empty() {
                return None;
            }
            let mut l = Vec::new();
            for (i, (f, o)) in topics.iter().enumerate() {
                l.push(Node::tag(
                    Tag::TopicEntry(i),
                    Node::Seq(vec![
                        str_node(StrKind::Filter(i), f.as_bytes()),
                        Node::tag(Tag::SubOpts(i), Node::raw(&[*o])),
                    ]),
                ));
            }
            b.push(Node::tag(Tag::List, Node::Seq(l)));
            b
        }
        Ast::Suback { pid, props, codes } | Ast::Unsuback { pid, props, codes } => {
            if !only_canon(&sp) {
                return None;
            }
            if !v5 && matches!(ast, Ast::Unsuback { .. }) {
                return None;
            }
            let mut b = vec![pid_node(*pid)];
            if v5 {
                b.push(props_node(t, props, sp.plen_pad, sp.subid_pad));
            } else if !props.is_empty() {
                return None;
            }
            let l: Vec<Node> =
                codes.iter().enumerate().map(|(i, c)| Node::tag(Tag::Code(t, i), Node::raw(&[*c]))).collect();
            b.push(Node::tag(Tag::List, Node::Seq(l)));
            b
        }
        Ast::Unsubscribe { pid, props, topics } => {
            if !only_canon(&sp) {
                return None;
            }
            let mut b = vec![pid_node(*pid)];
            if v5 {
                b.push(props_node(UNSUBSCRIBE, props, sp.plen_pad, sp.subid_pad));
            } else if !props.is_empty() {
                return None;
            }
            let l: Vec<Node> = topics
                .iter()
                .enumerate()
                .map(|(i, f)| Node::tag(Tag::TopicEntry(i), str_node(StrKind::Filter(i), f.as_bytes())))
                .collect();
            b.push(Node::tag(Tag::List, Node::Seq(l)));
            b
        }
        Ast::Pingreq | Ast::Pingresp => {
            if !only_canon(&sp) {
                return None;
            }
            vec![]
        }
        Ast::Disconnect { code, props } => {
            if !v5 {
                if !only_canon(&sp) || *code != 0 || !props.is_empty() {
                    return None;
                }
                vec![]
            } else {
                let (with_code, with_props) = match sp.form {
                    Form::Canon => (*code != 0 || !props.is_empty(), !props.is_empty()),
                    Form::CodeOnly => {
                        if !props.is_empty() {
                            return None;
                        }
                        (true, false)
                    }
                    Form::Full => (true, true),
                };
                let mut b = Vec::new();
                if with_code {
                    b.push(Node::tag(Tag::Code(DISCONNECT, 0), Node::raw(&[*code])));
                }
                if with_props {
                    b.push(props_node(DISCONNECT, props, sp.plen_pad, sp.subid_pad));
                }
                b
            }
        }
        Ast::Auth { code, props } => {
            if !v5 {
                return None;
            }
            let full = match sp.form {
                Form::Canon => *code != 0 || !props.is_empty(),
                Form::CodeOnly => return None,
                Form::Full => true,
            };
            if full {
                vec![
                    Node::tag(Tag::Code(AUTH, 0), Node::raw(&[*code])),
                    props_node(AUTH, props, sp.plen_pad, sp.subid_pad),
                ]
            } else {
                vec![]
            }
        }
    };
    Some(Frame { control: (t << 4) | flags, rl_pad: sp.rl_pad, rl_raw: None, body: Node::Seq(body) })
}

/// Canonical bytes of a value (`None` if it cannot be framed).
pub fn encode_bytes(family: Family, ast: &Ast) -> Option<Vec<u8>> {
    encode(family, ast, Spell::default())?.bytes()
}
