//! C05 (poll decoder: schedule independence, cancellation safety) and C08 (framing of back-to-back
//! packets): explicit-state exploration with E1, complemented by E2 runs that keep one future alive.

use crate::checks::sweeps;
use crate::checks::values::{u_small, u_tiny};
use crate::e1::{self, PollModel, Stats, Stream};
use crate::ev::{guard, hex, hex_short, Ctx};
use crate::fam::{Fam, V3, V5};
use crate::front::{self, Out};
use mqtt_ref::ast::{Ast, PVal, Prop};
use mqtt_ref::enc::{self, Spell};
use mqtt_ref::mutate::{self, CatalogueStats};
use mqtt_ref::{gen, Family};
use rayon::prelude::*;
use serde_json::json;
use std::marker::PhantomData;
use std::sync::atomic::Ordering::Relaxed;
use std::sync::Arc;

fn run_model<F: Fam>(ctx: &Ctx, prop: &'static str, label: &str, streams: Vec<Stream>, r: usize, all_k_below: usize, max_dev: u8, faults: bool) {
    run_model_threads::<F>(ctx, prop, label, streams, r, all_k_below, max_dev, faults, rayon::current_num_threads())
}

pub fn run_model_threads<F: Fam>(ctx: &Ctx, prop: &'static str, label: &str, streams: Vec<Stream>, r: usize, all_k_below: usize, max_dev: u8, faults: bool, threads: usize) {
    if streams.is_empty() {
        return;
    }
    let n = streams.len();
    let stats = Arc::new(Stats::default());
    let streams = Arc::new(streams);
    let streams_again = streams.clone();
    let model: PollModel<F> = PollModel { prop, streams, r, all_k_below, max_dev, faults, stats: stats.clone(), _f: PhantomData };
    let res = e1::explore(model, threads);
    if ctx.thorough() && label != "replay" && label != "miri" {
        // determinism: the same model explored again must have the same number of unique states
        let stats2 = Arc::new(Stats::default());
        let again: PollModel<F> = PollModel { prop, streams: streams_again, r, all_k_below, max_dev, faults, stats: stats2, _f: PhantomData };
        let res2 = e1::explore(again, threads);
        if res2.unique_states != res.unique_states {
            ctx.info("machinery_error", json!(format!("E1 {label}: two explorations of the same model differ ({} vs {} unique states) - nondeterminism", res.unique_states, res2.unique_states)));
        }
        ctx.count(&format!("{}_{label}_second_run_unique_states", F::NAME), res2.unique_states);
    }
    ctx.state(res.unique_states);
    ctx.trans(stats.transitions.load(Relaxed));
    ctx.trace(stats.done_ok.load(Relaxed) + stats.finished_err.load(Relaxed));
    ctx.eval(stats.polls.load(Relaxed));
    ctx.count(&format!("{}_{label}_streams", F::NAME), n as u64);
    ctx.count(&format!("{}_{label}_unique_states", F::NAME), res.unique_states);
    ctx.count(&format!("{}_{label}_generated_states", F::NAME), res.generated_states);
    ctx.count(&format!("{}_{label}_transitions", F::NAME), stats.transitions.load(Relaxed));
    ctx.count(&format!("{}_{label}_max_depth", F::NAME), res.max_depth);
    ctx.count(&format!("{}_{label}_terminal_ok", F::NAME), stats.done_ok.load(Relaxed));
    ctx.count(&format!("{}_{label}_terminal_err", F::NAME), stats.finished_err.load(Relaxed));
    ctx.count(&format!("{}_{label}_partial_body_states", F::NAME), stats.partial_body_states.load(Relaxed));
    ctx.count(&format!("{}_{label}_oracle_runs", F::NAME), stats.oracle_runs.load(Relaxed));
    ctx.count(&format!("{}_{label}_states_differing_from_reference_abstraction", F::NAME), stats.repr_mismatch.load(Relaxed));
    for v in stats.violations.lock().unwrap().iter() {
        ctx.violation(v.key.clone(), v.what.clone(), v.case.clone());
    }
    if let Some(ce) = res.counterexample {
        ctx.info(&format!("{}_{label}_counterexample_path", F::NAME), json!(ce));
    }
    // non-vacuity: a well-formed stream must reach a terminal Ok and partial body states must exist
    if label == "wellformed" && stats.violations.lock().unwrap().is_empty() && (stats.done_ok.load(Relaxed) == 0 || stats.partial_body_states.load(Relaxed) < 2) {
        ctx.info("machinery_error", json!(format!("vacuous exploration for {} {label}: done_ok={} partial_body={}", F::NAME, stats.done_ok.load(Relaxed), stats.partial_body_states.load(Relaxed))));
    }
}

/// E2 complement: one future object kept alive across polls (and re-created), chunked transports
fn e2_keep_alive<F: Fam>(ctx: &Ctx, prop: &str, frames: &[Vec<u8>], bound: usize) {
    frames.par_iter().for_each(|f| {
        let n = f.len();
        let mut stream = f.clone();
        stream.extend_from_slice(&[0xD0, 0x00, 0xFF]);
        let (oracle, _, _) = front::poll_slice::<F>(f);
        let hl = mqtt_ref::dec::header(f).map(|h| h.2).unwrap_or(2);
        let sched: Vec<Vec<usize>> = if n <= 12 { front::all_cut_sets(n).collect() } else { front::bounded_cut_sets(&front::cut_candidates(n, hl, 40), bound) };
        for cuts in &sched {
            for (pend, recreate) in [(false, false), (true, false), (true, true)] {
                let r = front::poll_chunked::<F>(&stream, cuts, pend, recreate, n);
                ctx.eval(1);
                ctx.trans(r.polls as u64);
                ctx.trace(1);
                let out = r.out();
                let mut bad: Option<String> = None;
                if out != oracle {
                    bad = Some(format!("result {} differs from the single-read result {}", out.short(), oracle.short()));
                } else if r.spurious_pending || r.swallowed_pending {
                    bad = Some(format!("Pending mismatch: spurious={} swallowed={}", r.spurious_pending, r.swallowed_pending));
                } else if r.log.over_ask.is_some() {
                    bad = Some(format!("asked for {:?} (capacity, bytes left in frame)", r.log.over_ask));
                } else if out.is_pkt() && (r.total() != Some(n) || r.consumed != n || r.body() != Some(&f[hl..])) {
                    bad = Some(format!("total {:?} consumed {} of {n}, body equal: {}", r.total(), r.consumed, r.body() == Some(&f[hl..])));
                } else if r.uninit_exposed {
                    bad = Some("uninitialised body bytes exposed".into());
                } else if r.consumed > n {
                    bad = Some(format!("consumed {} bytes of a {n}-byte frame", r.consumed));
                }
                if let Some(w) = bad {
                    ctx.violation(
                        format!("{prop}:{}:e2:kept-future:type{}", F::NAME, f[0] >> 4),
                        format!("frame {} cuts {cuts:?} pending={pend} recreate={recreate}: {w}", hex_short(f)),
                        json!({"kind":"poll-chunked","family":F::NAME,"bytes":hex(f),"cuts":cuts,"pending":pend,"recreate":recreate}),
                    );
                    return;
                }
            }
        }
    });
}

fn mal_frames(fam: Family, max_len: usize, step: usize) -> Vec<Vec<u8>> {
    let mut stats = CatalogueStats::default();
    let mut out: Vec<Vec<u8>> = Vec::new();
    for a in u_tiny(fam) {
        for m in mutate::catalogue(fam, &a, &mut stats, true) {
            if m.bytes.len() <= max_len && mqtt_ref::dec::header(&m.bytes).is_ok() {
                out.push(m.bytes);
            }
        }
    }
    out.sort();
    out.dedup();
    out.into_iter().step_by(step).collect()
}

pub fn c05(ctx: &Ctx) {
    let (max_len, r, allk) = if ctx.thorough() { (40, 3, 20) } else { (24, 2, 24) };
    ctx.set_rule(&format!("E1 (stateright BFS, transition = one real poll on a restored caller-owned state with a fresh future): every U_small frame <= {max_len} bytes in every form, the single-fault catalogue frames of U_tiny (malformed streams), non-minimal header spellings, and frames with 2-/3-(thorough 4-)byte headers, each followed by a 3-byte sentinel; per poll up to {r} transport answers (all chunk sizes for frames <= {allk} bytes, boundary sizes {{1,2,l/2,l-2,l-1,l}} with <= 3 deviations otherwise) ending in Pending, end-of-stream or ConnectionReset. Invariants in every state: no panic, state = function of the consumed prefix (reference ref_poll_state), capacity <= bytes left in the frame, Pending iff the transport was pending; terminal: result = one uninterrupted read of the same prefix, total = consumed = frame length, body bytes exact and fully written. E2: the same frames with one future kept alive / re-created under all compositions (<= 12 bytes) or bounded cut sets. Non-trivial = distinct explicit states"));
    fn fam<F: Fam>(ctx: &Ctx, max_len: usize, r: usize, allk: usize) {
        let f = F::FAMILY;
        let frames = sweeps::small_frames(f, max_len);
        let wf: Vec<Stream> = frames.iter().map(|b| Stream::single(b, "wellformed")).collect();
        run_model::<F>(ctx, "C05", "wellformed", wf, r, allk, 3, true);
        // three transport answers per poll for the shortest frames
        let tiny3: Vec<Stream> = frames.iter().filter(|b| b.len() <= 9).map(|b| Stream::single(b, "wellformed-r3")).collect();
        run_model::<F>(ctx, "C05", "tiny_r3", tiny3, 3, 24, 3, true);
        let mal = mal_frames(f, max_len, if ctx.thorough() { 3 } else { 23 });
        let ms: Vec<Stream> = mal.iter().map(|b| Stream::single(b, "malformed")).collect();
        run_model::<F>(ctx, "C05", "malformed", ms, r.min(2), if ctx.thorough() { allk } else { 10 }, 3, true);
        // non-minimal header spellings and body-less packets with long headers
        let mut nm: Vec<Stream> = Vec::new();
        for a in u_tiny(f) {
            for pad in 1..=3u8 {
                if let Some(fr) = enc::encode(f, &a, Spell { rl_pad: pad, ..Default::default() }) {
                    if let Some(b) = fr.bytes() {
                        if b.len() <= max_len + 3 {
                            nm.push(Stream::single(&b, "non-minimal-header"));
                        }
                    }
                }
            }
        }
        run_model::<F>(ctx, "C05", "nonminimal", nm, r.min(2), allk, 3, true);
        // long headers: boundary chunk alphabet, deviation bounded
        let mut targets = vec![128usize, 300, 16384];
        if ctx.thorough() {
            targets.push(2_097_152);
        }
        let mut long: Vec<Stream> = Vec::new();
        for a in gen::u_size(f, &[], &targets) {
            if let Some(b) = enc::encode_bytes(f, &a) {
                long.push(Stream::single(&b, "long-header"));
            }
        }
        run_model::<F>(ctx, "C05", "longheader", long, 2, 0, if ctx.thorough() { 4 } else { 3 }, true);
        // E2 complement
        let mut e2: Vec<Vec<u8>> = frames.clone();
        e2.extend(mal.iter().cloned());
        for a in gen::u_size(f, &[], &[128, 16384]) {
            if let Some(b) = enc::encode_bytes(f, &a) {
                e2.push(b);
            }
        }
        ctx.count(&format!("{}_e2_frames", F::NAME), e2.len() as u64);
        e2_keep_alive::<F>(ctx, "C05", &e2, if ctx.thorough() { 3 } else { 2 });
    }
    fam::<V3>(ctx, max_len, r, allk);
    fam::<V5>(ctx, max_len, r, allk);
    let st = ctx.states.load(Relaxed);
    ctx.nontriv(st);
    ctx.sample(json!({"stream": "c0 80 00 d0 00 ff", "kind": "PINGREQ with a 2-byte spelling of remaining length 0 + sentinel", "actions": "Step{chunks:[1],end:Pending} ; Step{chunks:[1,1],end:Pending}"}));
    ctx.sample(json!({"stream": "30 06 00 01 61 78 79 7a d0 00 ff", "path": "Step{[1],Pending} Step{[1,3],Pending} Step{[2],Eof}", "expect": "same as one uninterrupted read of the first 7 bytes + EOF"}));
    ctx.sample(json!({"stream": "v3 PUBLISH with a 3-byte header (remaining length 16384)", "chunks": "boundary alphabet {1,2,l/2,l-2,l-1,l}, <= 3 deviations"}));
}

// ---------------------------------------------------------------------------------------------
// C08

/// the confusable packet alphabet
pub fn c08_alphabet(fam: Family) -> Vec<Ast> {
    let v5 = fam == Family::V5;
    let level = if v5 { 5 } else { 4 };
    let mut a: Vec<Ast> = vec![
        Ast::Pingreq,
        Ast::Pingresp,
        Ast::Disconnect { code: 0, props: vec![] },
        Ast::Ack { typ: 4, pid: 0x3000, code: 0, props: vec![] },
        Ast::Ack { typ: 6, pid: 0xC000, code: 0, props: vec![] },
        Ast::Connack { session_present: true, code: 0, props: vec![] },
        Ast::Connect { level, clean: true, keep_alive: 0xC000, props: vec![], client_id: "".into(), will: None, username: None, password: None },
        Ast::Publish { dup: false, qos: 0, retain: false, topic: "a".into(), pid: None, props: vec![], payload: vec![] },
        Ast::Publish { dup: false, qos: 0, retain: false, topic: "é/€".into(), pid: None, props: vec![], payload: vec![0xC0, 0x00] },
        Ast::Publish { dup: true, qos: 2, retain: true, topic: "t".into(), pid: Some(0x1002), props: vec![], payload: vec![0x30] },
        Ast::Publish { dup: false, qos: 1, retain: false, topic: "a/b".into(), pid: Some(7), props: vec![], payload: vec![0xE0, 0x00, 0xD0] },
        Ast::Publish { dup: false, qos: 0, retain: false, topic: "b".into(), pid: None, props: vec![], payload: vec![0x5A; 124] },
        Ast::Publish { dup: false, qos: 0, retain: false, topic: "b".into(), pid: None, props: vec![], payload: vec![0xC0; 130] },
        Ast::Subscribe { pid: 9, props: vec![], topics: vec![("a/+".into(), 1), ("#".into(), 0)] },
        Ast::Suback { pid: 9, props: vec![], codes: vec![0, 1, 2, 0x80] },
        Ast::Suback { pid: 9, props: vec![], codes: vec![] },
        Ast::Unsubscribe { pid: 10, props: vec![], topics: vec!["$share/g/é".into()] },
    ];
    if v5 {
        a.extend(vec![
            Ast::Ack { typ: 4, pid: 1, code: 0x10, props: vec![] },
            Ast::Ack { typ: 5, pid: 1, code: 0, props: vec![Prop { id: 0x1F, val: PVal::Str("r".into()) }] },
            Ast::Disconnect { code: 0x04, props: vec![] },
            Ast::Disconnect { code: 0, props: vec![Prop { id: 0x11, val: PVal::U32(0xC0D0E0F0) }] },
            Ast::Auth { code: 0, props: vec![] },
            Ast::Auth { code: 0x18, props: vec![Prop { id: 0x15, val: PVal::Str("m".into()) }] },
            Ast::Unsuback { pid: 10, props: vec![], codes: vec![0x11, 0] },
            Ast::Publish { dup: false, qos: 0, retain: false, topic: "".into(), pid: None, props: vec![Prop { id: 0x23, val: PVal::U16(3) }, Prop { id: 0x0B, val: PVal::VarInt(16384) }], payload: vec![] },
            Ast::Subscribe { pid: 9, props: vec![Prop { id: 0x0B, val: PVal::VarInt(128) }], topics: vec![("a".into(), 0x2E)] },
            // property sections whose length needs two bytes (128) - every decoder that keeps its own byte accounting
            Ast::Unsubscribe { pid: 10, props: vec![Prop { id: 0x26, val: PVal::Pair("k".repeat(123), String::new()) }], topics: vec!["a".into()] },
            Ast::Subscribe { pid: 9, props: vec![Prop { id: 0x26, val: PVal::Pair("k".repeat(123), String::new()) }], topics: vec![("a".into(), 1)] },
            Ast::Suback { pid: 9, props: vec![Prop { id: 0x1F, val: PVal::Str("r".repeat(125)) }], codes: vec![1, 0x80] },
            Ast::Publish { dup: false, qos: 0, retain: false, topic: "t".into(), pid: None, props: vec![Prop { id: 0x26, val: PVal::Pair("k".repeat(123), String::new()) }], payload: vec![0x30, 0x00] },
        ]);
    } else {
        a.push(Ast::Ack { typ: 11, pid: 0xD000, code: 0, props: vec![] });
        a.push(Ast::Connect { level: 3, clean: false, keep_alive: 1, props: vec![], client_id: "c".into(), will: None, username: Some("u".into()), password: Some(vec![0xC0, 0]) });
    }
    a
}

fn sequences(n: usize, max_len: usize) -> Vec<Vec<usize>> {
    let mut out: Vec<Vec<usize>> = Vec::new();
    let mut cur: Vec<Vec<usize>> = vec![vec![]];
    for _ in 0..max_len {
        let mut next = Vec::new();
        for s in &cur {
            for i in 0..n {
                let mut t = s.clone();
                t.push(i);
                next.push(t);
            }
        }
        out.extend(next.iter().cloned());
        cur = next;
    }
    out
}

fn c08_seq<F: Fam>(ctx: &Ctx, pk: &[(F::Packet, Vec<u8>)], seq: &[usize], schedules: bool) {
    let mut stream = Vec::new();
    let mut ends = Vec::new();
    for i in seq {
        stream.extend_from_slice(&pk[*i].1);
        ends.push(stream.len());
    }
    let case = json!({"kind":"sequence","family":F::NAME,"stream":hex(&stream),"ends":ends});
    let key = |w: &str| format!("C08:{}:{w}", F::NAME);
    // blocking: decode at the offset, advance by the encoded length of what was returned
    let mut off = 0usize;
    for (j, i) in seq.iter().enumerate() {
        let o = front::blocking::<F>(&stream[off..]);
        ctx.trans(1);
        match &o {
            Out::Pkt(p) if *p == pk[*i].0 => match guard(|| F::encode_len(p)) {
                Ok(Ok(l)) => off += l,
                other => {
                    ctx.violation(key("blocking-encode_len"), format!("encode_len of decoded packet {j}: {:?}", other), case.clone());
                    return;
                }
            },
            _ => {
                ctx.violation(key("blocking-sequence"), format!("packet {j} of the stream {} at offset {off}: {}, expected {}", hex_short(&stream), o.short(), Out::<F>::Pkt(pk[*i].0.clone()).short()), case.clone());
                return;
            }
        }
        if off != ends[j] {
            ctx.violation(key("blocking-offset"), format!("after packet {j} the offset is {off}, the boundary is at {}", ends[j]), case.clone());
            return;
        }
        // helpers for slice users
        let total = pk[*i].1.len();
        if mqtt_proto::header_len(total) + mqtt_proto::remaining_len(total) != total {
            ctx.violation(key("helpers"), format!("header_len/remaining_len of {total} do not add up"), case.clone());
        }
    }
    if front::blocking::<F>(&stream[off..]) != Out::Incomplete {
        ctx.violation(key("blocking-end"), format!("decoding at the end of the stream does not report incomplete: {}", front::blocking::<F>(&stream[off..]).short()), case.clone());
    }
    ctx.eval(1);
    ctx.trace(1);
    // async: one cursor over the whole stream; poll: caller resets the state between packets
    let mut cutsets: Vec<(Vec<usize>, bool)> = vec![(vec![], false)];
    if schedules {
        let mut cand: Vec<usize> = Vec::new();
        for e in &ends {
            for d in [-1i64, 0, 1, 2] {
                let c = *e as i64 + d;
                if c > 0 && (c as usize) < stream.len() {
                    cand.push(c as usize);
                }
            }
        }
        cand.sort();
        cand.dedup();
        for c in front::bounded_cut_sets(&cand, 2) {
            cutsets.push((c.clone(), false));
            cutsets.push((c, true));
        }
        cutsets.push(((1..stream.len()).collect(), false));
        cutsets.push(((1..stream.len()).collect(), true));
    }
    for (cuts, pend) in &cutsets {
        // async
        let r = guard(|| {
            let mut rd = front::ChunkedReader::new(&stream, cuts, *pend);
            let mut got: Vec<(Option<Result<F::Packet, F::Error>>, usize)> = Vec::new();
            for _ in 0..=seq.len() {
                let mut a = false;
                let mut b = false;
                let rdp: *const front::ChunkedReader = &rd;
                let out = {
                    let fut = F::decode_async(&mut rd);
                    let mut fut = std::pin::pin!(fut);
                    crate::env::drive(fut.as_mut(), stream.len() * 2 + 64, || unsafe { (*rdp).log.pendings }, &mut a, &mut b).out
                };
                got.push((out, rd.pos));
            }
            got
        });
        ctx.trans(seq.len() as u64 + 1);
        ctx.eval(1);
        ctx.trace(1);
        match r {
            Err(m) => {
                ctx.violation(key("async-panic"), format!("panic: {m}"), case.clone());
                return;
            }
            Ok(got) => {
                for (j, i) in seq.iter().enumerate() {
                    let ok = matches!(&got[j].0, Some(Ok(p)) if *p == pk[*i].0) && got[j].1 == ends[j];
                    if !ok {
                        ctx.violation(
                            key("async-sequence"),
                            format!("async decoder, cuts {cuts:?} pending={pend}: packet {j} of {} -> {:?} with the cursor at {} (boundary {})", hex_short(&stream), got[j].0.as_ref().map(|r| r.as_ref().map(|p| Out::<F>::Pkt(p.clone()).short())), got[j].1, ends[j]),
                            json!({"kind":"sequence","family":F::NAME,"stream":hex(&stream),"ends":ends,"cuts":cuts,"pending":pend}),
                        );
                        return;
                    }
                }
                let last = &got[seq.len()];
                if !matches!(&last.0, Some(Err(e)) if F::is_eof(e)) || last.1 != stream.len() {
                    ctx.violation(key("async-end"), format!("async decoder at the end of the stream: {:?}", last.0.as_ref().map(|r| r.as_ref().map(|_| "packet"))), case.clone());
                    return;
                }
            }
        }
        // poll with caller-side reset
        for recreate in [false, true] {
            let mut rd = front::ChunkedReader::new(&stream, cuts, *pend);
            let mut sum = 0usize;
            for (j, i) in seq.iter().enumerate() {
                rd.frame_end = ends[j];
                let mut st: mqtt_proto::GenericPollPacketState<F::Header> = Default::default();
                let (raw, panic, sp, sw, un, polls) = front::poll_over::<F, front::ChunkedReader>(&mut rd, &mut st, recreate, stream.len() * 2 + 64, &|r| r.log.pendings, &|r| r.log.reads.clone());
                ctx.trans(polls as u64);
                let ok = panic.is_none() && !sp && !sw && !un && rd.log.over_ask.is_none() && matches!(&raw, Some(Ok((t, _, p))) if *p == pk[*i].0 && { sum += *t; sum == ends[j] }) && rd.pos == ends[j];
                if !ok {
                    ctx.violation(
                        key("poll-sequence"),
                        format!("poll decoder, cuts {cuts:?} pending={pend} recreate={recreate}: packet {j} of {} -> {:?} panic {:?}, position {} (boundary {}), totals add up to {sum}, over_ask {:?}", hex_short(&stream), raw.as_ref().map(|r| r.as_ref().map(|x| x.0)), panic, rd.pos, ends[j], rd.log.over_ask),
                        json!({"kind":"sequence","family":F::NAME,"stream":hex(&stream),"ends":ends,"cuts":cuts,"pending":pend,"recreate":recreate}),
                    );
                    return;
                }
            }
            rd.frame_end = usize::MAX;
            let mut st: mqtt_proto::GenericPollPacketState<F::Header> = Default::default();
            let (raw, _, _, _, _, _) = front::poll_over::<F, front::ChunkedReader>(&mut rd, &mut st, recreate, 64, &|r| r.log.pendings, &|r| r.log.reads.clone());
            let clean = matches!(&raw, Some(Err(e)) if F::is_eof(e)) && e1::snapshot::<F>(&st) == (e1::Snap::Header { cb: None, var_idx: 0, var_int: 0 });
            if !clean {
                ctx.violation(key("poll-end"), format!("poll decoder at the end of {}: {:?}, header state untouched: {}", hex_short(&stream), raw.as_ref().map(|r| r.as_ref().map(|x| x.0)), e1::snapshot::<F>(&st) == (e1::Snap::Header { cb: None, var_idx: 0, var_int: 0 })), case.clone());
                return;
            }
        }
    }
}

pub fn c08(ctx: &Ctx) {
    let (seq_len, e1_len) = if ctx.thorough() { (4, 4) } else { (3, 3) };
    ctx.set_rule(&format!("a confusable packet alphabet per family (body-less packets, short forms, payloads ending in plausible control bytes, multi-byte topics, 128-/130-byte bodies, lists whose length only the header knows, empty payloads): ALL sequences of length <= {seq_len} through the blocking decoder (offset advanced by encode_len of the result, helpers header_len/remaining_len), all sequences of length <= 2 through the async decoder on one cursor and the poll decoder with caller-side reset under every cut set of <= 2 cuts at boundary-1..boundary+2 (with/without Pending, future kept/re-created) and byte-wise delivery; E1 state-space exploration of all sequences of length <= {e1_len} over the short packets (boundary chunk alphabet); sandwich leg: every value v of U_val, U_size, U_field and U_thresh (encodings <= 70,000 bytes) as the stream v ++ PUBLISH ++ v through the blocking, async (one cursor) and poll decoders with exact offsets; final decode must report a clean end of input with an untouched header state; history leg: a mixed list of frames, truncations, long-string frames and malformed frames, every ordered pair decoded back to back on one thread at the same buffer address, each outcome compared with its fresh-thread baseline. Non-trivial = sequences of >= 2 packets"));
    fn fam<F: Fam>(ctx: &Ctx, seq_len: usize, e1_len: usize) {
        let alpha = c08_alphabet(F::FAMILY);
        let pk: Vec<(F::Packet, Vec<u8>)> = alpha
            .iter()
            .filter_map(|a| {
                guard(|| {
                    let p = F::from_ast(a)?;
                    let b = F::encode(&p).ok()?.as_ref().to_vec();
                    Some((p, b))
                })
                .ok()
                .flatten()
            })
            .collect();
        if pk.len() != alpha.len() {
            // constructing or encoding a valid packet failed or panicked: C01/C02 report the cause; here it is
        // a violation too, because the sequence cannot be framed at all
        ctx.violation(format!("C08:{}:alphabet-packet-cannot-be-encoded", F::NAME), format!("{} of {} valid alphabet packets could not be built/encoded", alpha.len() - pk.len(), alpha.len()), json!({"kind":"alphabet","family":F::NAME}));
        }
        ctx.count(&format!("{}_alphabet", F::NAME), pk.len() as u64);
        let seqs = sequences(pk.len(), seq_len);
        ctx.count(&format!("{}_sequences", F::NAME), seqs.len() as u64);
        seqs.par_iter().for_each(|s| c08_seq::<F>(ctx, &pk, s, s.len() <= 2));
        ctx.state(seqs.len() as u64);
        ctx.nontriv(seqs.iter().filter(|s| s.len() >= 2).count() as u64);
        // sandwich leg: EVERY value of the value universes (U_val, U_size, U_field, U_thresh; encodings <= 70,000 bytes)
        // framed between a copy of itself and a sentinel: v ++ PUBLISH("a", 30) ++ v through the three front-ends
        let sentinel_ast = Ast::Publish { dup: false, qos: 0, retain: false, topic: "a".into(), pid: None, props: vec![], payload: vec![0x30] };
        if let Some(Some(sentinel)) = guard(|| {
            let p = F::from_ast(&sentinel_ast)?;
            let b = F::encode(&p).ok()?.as_ref().to_vec();
            Some((p, b))
        })
        .ok()
        {
            let (u, _) = crate::checks::values::universe(F::FAMILY, ctx);
            let n_sand = std::sync::atomic::AtomicU64::new(0);
            crate::checks::values::for_items(&u, &|_, a| {
                let v = guard(|| {
                    let p = F::from_ast(a)?;
                    let b = F::encode(&p).ok()?.as_ref().to_vec();
                    Some((p, b))
                })
                .ok()
                .flatten();
                // values that cannot be built / encoded are C01's and C02's business
                if let Some(v) = v {
                    if v.1.len() <= 70_000 {
                        let two = [v, sentinel.clone()];
                        c08_seq::<F>(ctx, &two, &[0, 1, 0], false);
                        n_sand.fetch_add(1, std::sync::atomic::Ordering::Relaxed);
                    }
                }
            });
            let n = n_sand.load(std::sync::atomic::Ordering::Relaxed);
            ctx.count(&format!("{}_sandwich_sequences", F::NAME), n);
            ctx.state(n);
            ctx.nontriv(n);
        }
        // E1 over sequences of short packets
        let short: Vec<usize> = (0..pk.len()).filter(|i| pk[*i].1.len() <= 12).collect();
        let e1seqs = sequences(short.len(), e1_len);
        let streams: Vec<Stream> = e1seqs
            .iter()
            .map(|s| {
                let frames: Vec<Vec<u8>> = s.iter().map(|i| pk[short[*i]].1.clone()).collect();
                Stream::sequence(&frames, "sequence")
            })
            .collect();
        ctx.count(&format!("{}_e1_short_alphabet", F::NAME), short.len() as u64);
        super::pollmc::run_model_pub::<F>(ctx, "C08", "sequences", streams, 2, 0, 2, false);
        for s in seqs.iter().filter(|s| s.len() == 3).step_by(seqs.len() / 2 + 1).take(2) {
            let mut b = Vec::new();
            for i in s {
                b.extend_from_slice(&pk[*i].1);
            }
            ctx.sample(json!({"family": F::NAME, "stream": hex_short(&b), "packets": s.len()}));
        }
    }
    fam::<V3>(ctx, seq_len, e1_len);
    fam::<V5>(ctx, seq_len, e1_len);
    // histories of separate decodes on one thread (fresh-thread baseline, all ordered pairs)
    crate::checks::history::decode_history::<V3>(ctx, "C08");
    crate::checks::history::decode_history::<V5>(ctx, "C08");
    ctx.sample(json!({"stream": "c0 00 40 02 30 00 30 03 00 01 61", "expect": "Pingreq, Puback(0x3000), Publish(\"a\", empty) then clean end of input"}));
}

pub fn run_model_pub<F: Fam>(ctx: &Ctx, prop: &'static str, label: &str, streams: Vec<Stream>, r: usize, all_k_below: usize, max_dev: u8, faults: bool) {
    run_model::<F>(ctx, prop, label, streams, r, all_k_below, max_dev, faults)
}

#[allow(dead_code)]
fn unused(_: &[Ast]) -> Vec<Ast> {
    u_small(Family::V3)
}

pub fn e2_pub<F: Fam>(ctx: &Ctx, prop: &str, frames: &[Vec<u8>]) {
    e2_keep_alive::<F>(ctx, prop, frames, 3);
}

/// replay helper: a recorded C08 stream with its boundaries
pub fn c08_stream<F: Fam>(ctx: &Ctx, stream: &[u8], ends: &[usize]) {
    let mut pk: Vec<(F::Packet, Vec<u8>)> = Vec::new();
    let mut start = 0;
    for e in ends {
        let frame = stream[start..*e].to_vec();
        match front::blocking::<F>(&frame) {
            Out::Pkt(p) => pk.push((p, frame)),
            other => {
                ctx.violation(format!("C08:{}:replay-decode", F::NAME), format!("frame {} of the recorded stream decodes to {}", hex_short(&frame), other.short()), json!({"kind":"sequence","family":F::NAME,"stream":hex(stream),"ends":ends}));
                return;
            }
        }
        start = *e;
    }
    let seq: Vec<usize> = (0..pk.len()).collect();
    c08_seq::<F>(ctx, &pk, &seq, true);
}
