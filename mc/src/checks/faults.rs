//! C13 (CONNECT of the other family) and C14 (transport failures surface as I/O errors).

use crate::checks::values::{scope_of, u_small};
use crate::env::{drive, run_ready, ScriptedWriter, RA, WA};
use crate::ev::{guard, hex, hex_short, last_panic_loc, Ctx};
use crate::fam::{Fam, V3, V5};
use crate::front::{self, ChunkedReader, Out};
use mqtt_proto::Protocol;
use mqtt_ref::ast::ptype;
use mqtt_ref::enc::{self, Node, StrKind, Tag};
use mqtt_ref::{dec, gen, mutate, Ast, Family};
use rayon::prelude::*;
use serde_json::json;
use std::io::ErrorKind;

// ---------------------------------------------------------------------------------------------
// C13

fn proto_of(level: u8) -> Protocol {
    crate::bind::protocol(level).unwrap()
}

/// `bytes` is a CONNECT of family G (by reference encoding); check family F's reaction.
fn c13_cross<F: Fam, G: Fam>(ctx: &Ctx, ast: &Ast, bytes: &[u8], level: u8) {
    let hl = dec::header(bytes).map(|h| h.2).unwrap_or(2);
    let name_len = if level == 3 { 6 } else { 4 };
    let gate = hl + 2 + name_len + 1;
    let want: Out<F> = Out::Err(F::common(mqtt_proto::Error::UnexpectedProtocol(proto_of(level))));
    let case = json!({"kind":"connect-cross","decoder":F::NAME,"bytes":hex(bytes)});
    let ob = front::blocking::<F>(bytes);
    let (op, _, _) = front::poll_slice::<F>(bytes);
    ctx.eval(2);
    ctx.trans(2);
    if ob != want || op != want {
        ctx.violation(
            format!("C13:{}-decoder:level{level}:wrong-error", F::NAME),
            format!("{} CONNECT {} given to the {} decoder: blocking {} / poll {}, expected UnexpectedProtocol({:?})", G::NAME, hex_short(bytes), F::NAME, ob.short(), op.short(), proto_of(level)),
            case.clone(),
        );
        return;
    }
    // async: error, cursor position, and continuation with the matching family's entry point
    for bytewise in [false, true] {
        let cuts: Vec<usize> = if bytewise { (1..bytes.len()).collect() } else { vec![] };
        let r = guard(|| {
            let mut rd = ChunkedReader::new(bytes, &cuts, false);
            let first = run_ready(F::decode_async(&mut rd));
            let pos = rd.pos;
            // header of the matching family from the same bytes, then continue on the same reader
            let header = G::header_decode(bytes);
            let cont = match header {
                Ok(h) => run_ready(G::connect_with_protocol(&mut rd, h, proto_of(level))),
                Err(_) => None,
            };
            (first, pos, cont, rd.pos)
        });
        ctx.eval(1);
        ctx.trans(2);
        ctx.trace(1);
        match r {
            Err(m) => ctx.violation(format!("C13:{}-decoder:panic", F::NAME), format!("panic: {m} @ {}", last_panic_loc()), case.clone()),
            Ok((first, pos, cont, endpos)) => {
                let first_ok = matches!(&first, Some(Err(e)) if Out::<F>::Err(e.clone()) == want);
                if !first_ok {
                    ctx.violation(format!("C13:{}-decoder:level{level}:async-error", F::NAME), format!("async {} decoder on a {} CONNECT: {:?}", F::NAME, G::NAME, first.map(|r| r.map(|_| "packet"))), case.clone());
                    continue;
                }
                if pos > gate {
                    ctx.violation(
                        format!("C13:{}-decoder:level{level}:consumed-past-protocol", F::NAME),
                        format!("{} decoder refused the {} CONNECT {} after consuming {pos} bytes; protocol name and level end at {gate} (bytewise={bytewise})", F::NAME, G::NAME, hex_short(bytes)),
                        case.clone(),
                    );
                    continue;
                }
                let native = guard(|| G::from_ast(ast)).ok().flatten();
                match (cont, native) {
                    (Some(Ok(p)), Some(q)) if p == q && endpos == bytes.len() => {}
                    (c, _) => ctx.violation(
                        format!("C13:{}-then-{}:continuation", F::NAME, G::NAME),
                        format!("continuing the refused CONNECT {} with {}::Connect::decode_with_protocol gives {:?} (consumed {endpos} of {}), not the native decode", hex_short(bytes), G::NAME, c.map(|r| r.map(|p| Out::<G>::Pkt(p).short())), bytes.len()),
                        case.clone(),
                    ),
                }
            }
        }
    }
}

fn c13_native<F: Fam>(ctx: &Ctx, ast: &Ast, bytes: &[u8]) {
    let want: Out<F> = match guard(|| F::from_ast(ast)) {
        Ok(Some(p)) => Out::Pkt(p),
        _ => return,
    };
    let ob = front::blocking::<F>(bytes);
    let (oa, _) = front::async_whole::<F>(bytes);
    let (op, _, _) = front::poll_slice::<F>(bytes);
    ctx.eval(3);
    ctx.trans(3);
    ctx.trace(3);
    if ob != want || oa != want || op != want {
        ctx.violation(
            format!("C13:{}:native-connect", F::NAME),
            format!("{} CONNECT {} decodes natively to blocking {} / async {} / poll {}", F::NAME, hex_short(bytes), ob.short(), oa.short(), op.short()),
            json!({"kind":"bytes","family":F::NAME,"bytes":hex(bytes)}),
        );
    }
}

/// every (name, level) pair in front of a valid rest of family F's own CONNECT
fn c13_pairs<F: Fam>(ctx: &Ctx) -> u64 {
    let fam = F::FAMILY;
    let thorough = ctx.thorough();
    let names: Vec<Vec<u8>> = vec![
        b"MQTT".to_vec(),
        b"MQIsdp".to_vec(),
        b"MQTt".to_vec(),
        b"MQIsd".to_vec(),
        b"".to_vec(),
        b"MQTTT".to_vec(),
        b"mqtt".to_vec(),
        b"MQISDP".to_vec(),
        b"MQTT\0".to_vec(),
        b"MQIsdpX".to_vec(),
        b"MQTTMQTT".to_vec(),
        vec![b'M'; 300],
        vec![0xFF, 0xFE],
        vec![b'M', b'Q', 0xC3],
    ];
    // names built from the protocol words and the level bytes themselves: all concatenations of <= 3 tokens
    // (a level byte glued in front of / behind a correct name, two names, a name split by NUL, ...)
    let mut names = names;
    {
        let toks: [&[u8]; 6] = [b"MQTT", b"MQIsdp", &[3], &[4], &[5], &[0]];
        let mut cur: Vec<Vec<u8>> = vec![vec![]];
        for _ in 0..3 {
            let mut next = Vec::new();
            for c in &cur {
                for t in toks {
                    let mut n = c.clone();
                    n.extend_from_slice(t);
                    next.push(n);
                }
            }
            for n in &next {
                if !names.contains(n) {
                    names.push(n.clone());
                }
            }
            cur = next;
        }
    }
    let hosts: Vec<Ast> = gen::values_of(fam, ptype::CONNECT, &gen::Scope::tiny());
    let mut n = 0u64;
    for host in &hosts {
        let f = match enc::encode(fam, host, enc::Spell::default()) {
            Some(f) => f,
            None => continue,
        };
        let s = mutate::sites(&f.body);
        let name_path = s.iter().find(|(_, t)| *t == Tag::Str(StrKind::ProtoName)).map(|x| x.0.clone()).unwrap();
        let level_path = s.iter().find(|(_, t)| *t == Tag::ProtoLevel).map(|x| x.0.clone()).unwrap();
        for (ni, name) in names.iter().enumerate() {
            for level in 0..=255u8 {
                // the token-built names get the levels around the legal ones (and their high-bit twins) only
                if ni >= 14 && !thorough && ![0u8, 1, 2, 3, 4, 5, 6, 0x83, 0x84, 0x85, 0xFF].contains(&level) {
                    continue;
                }
                let b = mutate::replace(&f.body, &name_path, Node::tag(Tag::Str(StrKind::ProtoName), Node::Len16(Box::new(Node::raw(name)))));
                let b = mutate::replace(&b, &level_path, Node::tag(Tag::ProtoLevel, Node::raw(&[level])));
                let bytes = enc::Frame { control: f.control, rl_pad: 0, rl_raw: None, body: b }.bytes().unwrap();
                n += 1;
                let known = matches!((&name[..], level), (b"MQIsdp", 3) | (b"MQTT", 4) | (b"MQTT", 5));
                let mine = known && ((fam == Family::V5) == (level == 5));
                let ob = front::blocking::<F>(&bytes);
                let (oa, _) = front::async_whole::<F>(&bytes);
                let (op, _, _) = front::poll_slice::<F>(&bytes);
                // direct constructor
                let direct = guard(|| Protocol::new(name, level));
                ctx.eval(4);
                ctx.trans(4);
                ctx.trace(4);
                let expect_err: Option<mqtt_proto::Error> = if mine {
                    None
                } else if known {
                    Some(mqtt_proto::Error::UnexpectedProtocol(proto_of(level)))
                } else {
                    match std::str::from_utf8(name) {
                        Ok(s) => Some(mqtt_proto::Error::InvalidProtocol(s.to_string(), level)),
                        Err(_) => Some(mqtt_proto::Error::InvalidString),
                    }
                };
                let case = json!({"kind":"bytes","family":F::NAME,"bytes":hex(&bytes)});
                match &expect_err {
                    None => {
                        // a matching pair in front of a matching rest: accepted (the level-3/4 rest is identical)
                        if !ob.is_pkt() || ob != oa || ob != op {
                            ctx.violation(format!("C13:{}:pair-rejected", F::NAME), format!("({:?},{level}) is this family's protocol but {} -> {} / {} / {}", String::from_utf8_lossy(name), hex_short(&bytes), ob.short(), oa.short(), op.short()), case);
                        }
                    }
                    Some(e) => {
                        let want: Out<F> = Out::Err(F::common(e.clone()));
                        if ob != want || oa != want || op != want {
                            ctx.violation(
                                format!("C13:{}:pair:{}", F::NAME, if known { "other-family" } else { "invalid" }),
                                format!("protocol ({:?},{level}) on {}: blocking {} / async {} / poll {}, expected {:?}", String::from_utf8_lossy(name), hex_short(&bytes), ob.short(), oa.short(), op.short(), e),
                                case,
                            );
                        }
                    }
                }
                let direct_ok = match (&direct, known) {
                    (Ok(Ok(p)), true) => *p == proto_of(level),
                    (Ok(Err(e)), false) => Some(e) == expect_err.as_ref(),
                    _ => false,
                };
                if !direct_ok {
                    ctx.violation("C13:Protocol::new".into(), format!("Protocol::new({:?},{level}) = {:?}", String::from_utf8_lossy(name), direct), json!({"kind":"protocol-new","name":hex(name),"level":level}));
                }
            }
        }
    }
    n
}

pub fn c13(ctx: &Ctx) {
    ctx.set_rule("every CONNECT of U_val (v3.1, v3.1.1, v5.0; reference encoding) x both decoder families x three front-ends: native family accepts; other family returns exactly UnexpectedProtocol(version), the async cursor stands right after the protocol level (whole and byte-wise delivery), and continuing on the same reader with the matching family's Connect::decode_with_protocol equals the native decode; all 256 levels x 270 names (correct, wrong case, truncated, extended, empty, NUL, non-UTF-8, and every concatenation of <= 3 tokens from MQTT, MQIsdp, 03, 04, 05, 00 - those with the levels 0..6, 83, 84, 85, ff in the quick tier, all 256 in the thorough tier) in front of a valid rest x both families x three front-ends, and Protocol::new directly. Non-trivial = CONNECT values with optional content");
    let sc = scope_of(ctx);
    let v3c = gen::values_of(Family::V3, ptype::CONNECT, &sc);
    let v5c = gen::values_of(Family::V5, ptype::CONNECT, &sc);
    ctx.count("v3_connects", v3c.len() as u64);
    ctx.count("v5_connects", v5c.len() as u64);
    v3c.par_iter().for_each(|a| {
        if let (Some(b), Ast::Connect { level, .. }) = (enc::encode_bytes(Family::V3, a), a) {
            ctx.state(1);
            c13_native::<V3>(ctx, a, &b);
            c13_cross::<V5, V3>(ctx, a, &b, *level);
        }
    });
    v5c.par_iter().for_each(|a| {
        if let Some(b) = enc::encode_bytes(Family::V5, a) {
            ctx.state(1);
            c13_native::<V5>(ctx, a, &b);
            c13_cross::<V3, V5>(ctx, a, &b, 5);
        }
    });
    let n = c13_pairs::<V3>(ctx) + c13_pairs::<V5>(ctx);
    ctx.count("name_level_frames", n);
    ctx.state(n);
    ctx.nontriv((v3c.len() + v5c.len()) as u64);
    ctx.sample(json!({"frame": "10 0c 00 04 4d 51 54 54 05 02 00 3c 00 00 00 (v5 CONNECT)", "v3_decoder": "UnexpectedProtocol(V500) after 9 bytes"}));
    ctx.sample(json!({"pair": "(\"MQTT\", 0x84)", "expect": "InvalidProtocol(\"MQTT\", 132)"}));
    ctx.sample(json!({"pair": "(ff fe, 4)", "expect": "InvalidString"}));
}

// ---------------------------------------------------------------------------------------------
// C14

pub const KINDS: &[ErrorKind] = &[
    ErrorKind::ConnectionReset,
    ErrorKind::ConnectionAborted,
    ErrorKind::BrokenPipe,
    ErrorKind::TimedOut,
    ErrorKind::PermissionDenied,
    ErrorKind::WouldBlock,
    ErrorKind::Interrupted,
    ErrorKind::InvalidData,
    ErrorKind::Other,
    ErrorKind::UnexpectedEof,
];

const ALL_KINDS: &[ErrorKind] = &[
    ErrorKind::NotFound,
    ErrorKind::PermissionDenied,
    ErrorKind::ConnectionRefused,
    ErrorKind::ConnectionReset,
    ErrorKind::HostUnreachable,
    ErrorKind::NetworkUnreachable,
    ErrorKind::ConnectionAborted,
    ErrorKind::NotConnected,
    ErrorKind::AddrInUse,
    ErrorKind::AddrNotAvailable,
    ErrorKind::NetworkDown,
    ErrorKind::BrokenPipe,
    ErrorKind::AlreadyExists,
    ErrorKind::WouldBlock,
    ErrorKind::NotADirectory,
    ErrorKind::IsADirectory,
    ErrorKind::DirectoryNotEmpty,
    ErrorKind::ReadOnlyFilesystem,
    ErrorKind::StaleNetworkFileHandle,
    ErrorKind::InvalidInput,
    ErrorKind::InvalidData,
    ErrorKind::TimedOut,
    ErrorKind::WriteZero,
    ErrorKind::StorageFull,
    ErrorKind::NotSeekable,
    ErrorKind::QuotaExceeded,
    ErrorKind::FileTooLarge,
    ErrorKind::ResourceBusy,
    ErrorKind::ExecutableFileBusy,
    ErrorKind::Deadlock,
    ErrorKind::CrossesDevices,
    ErrorKind::TooManyLinks,
    ErrorKind::ArgumentListTooLong,
    ErrorKind::Interrupted,
    ErrorKind::Unsupported,
    ErrorKind::UnexpectedEof,
    ErrorKind::OutOfMemory,
    ErrorKind::Other,
];

fn c14_read<F: Fam>(ctx: &Ctx, ast: &Ast, pkt: &F::Packet, bytes: &[u8]) {
    let n = bytes.len();
    let hl = dec::header(bytes).map(|h| h.2).unwrap_or(2);
    let case = |k: usize, what: &str| json!({"kind":"read-fault","family":F::NAME,"bytes":hex(bytes),"pos":k,"fault":what});
    let key = |front: &str, what: &str| format!("C14:{}:{}:read:{front}:{what}", F::NAME, mqtt_ref::ast::ptype::name(ast.ptype()));
    for k in 0..=n {
        for bytewise in [false, true] {
            let cuts: Vec<usize> = if bytewise { (1..k).collect() } else { vec![] };
            let mut faults: Vec<(RA, Option<ErrorKind>)> = KINDS.iter().map(|kd| (RA::Err(*kd), Some(*kd))).collect();
            faults.push((RA::Eof, None));
            for (fault, kind) in faults {
                // --- async packet decoder
                let r = guard(|| {
                    let mut rd = ChunkedReader::new(&bytes[..k], &cuts, false);
                    rd.at_end = fault;
                    let out = run_ready(F::decode_async(&mut rd));
                    (out, rd.pos)
                });
                ctx.eval(1);
                ctx.trans(1);
                ctx.trace(1);
                let ok = match (&r, k == n) {
                    (Ok((Some(Ok(p)), _)), true) => p == pkt,
                    (Ok((Some(Err(e)), _)), false) => match kind {
                        Some(kd) => F::io_kind(e) == Some(kd) && (F::is_eof(e) == (kd == ErrorKind::UnexpectedEof)),
                        None => F::is_eof(e),
                    },
                    _ => false,
                };
                if !ok {
                    ctx.violation(
                        key("async", if kind.is_some() { "error-kind" } else { "eof" }),
                        format!("decode_async with {:?} at position {k} of {n} (bytewise={bytewise}) on {}: {:?}", fault, hex_short(bytes), r.as_ref().map(|(o, p)| (o.as_ref().map(|r| r.as_ref().map(|_| "packet")), *p))),
                        case(k, &format!("{:?}", fault)),
                    );
                }
                // --- poll decoder, future kept and re-created
                for recreate in [false, true] {
                    let mut rd = ChunkedReader::new(&bytes[..k], &cuts, false);
                    rd.at_end = fault;
                    let mut st: mqtt_proto::GenericPollPacketState<F::Header> = Default::default();
                    let (raw, panic, _, _, _, _) = front::poll_over::<F, ChunkedReader>(&mut rd, &mut st, recreate, n * 2 + 64, &|r| r.log.pendings, &|r| r.log.reads.clone());
                    ctx.eval(1);
                    ctx.trans(1);
                    ctx.trace(1);
                    let ok = panic.is_none()
                        && match (&raw, k == n) {
                            (Some(Ok((t, _, p))), true) => p == pkt && *t == n,
                            (Some(Err(e)), false) => match kind {
                                Some(kd) => F::io_kind(e) == Some(kd) && (F::is_eof(e) == (kd == ErrorKind::UnexpectedEof)),
                                None => F::is_eof(e),
                            },
                            _ => false,
                        };
                    if !ok {
                        ctx.violation(
                            key("poll", if kind.is_some() { "error-kind" } else { "eof" }),
                            format!("poll decoder with {:?} at position {k} of {n} (bytewise={bytewise}, recreate={recreate}) on {}: {:?} panic {:?}", fault, hex_short(bytes), raw.as_ref().map(|r| r.as_ref().map(|x| x.0)), panic),
                            case(k, &format!("{:?}", fault)),
                        );
                    }
                }
                // --- bare header
                if k <= hl {
                    let r = guard(|| {
                        let mut rd = ChunkedReader::new(&bytes[..k], &cuts, false);
                        rd.at_end = fault;
                        run_ready(F::header_decode_async(&mut rd))
                    });
                    ctx.eval(1);
                    ctx.trace(1);
                    let ok = match (&r, k >= hl) {
                        (Ok(Some(Ok(_))), true) => true,
                        (Ok(Some(Err(e))), false) => match kind {
                            Some(kd) => F::io_kind(e) == Some(kd),
                            None => F::is_eof(e),
                        },
                        _ => false,
                    };
                    if !ok {
                        ctx.violation(key("header", "error-kind"), format!("Header::decode_async with {:?} at {k} on {}: {:?}", fault, hex_short(bytes), r), case(k, &format!("{:?}", fault)));
                    }
                }
            }
        }
    }
}

fn c14_write<F: Fam>(ctx: &Ctx, ast: &Ast, pkt: &F::Packet, bytes: &[u8]) {
    let n = bytes.len();
    let key = |entry: &str, what: &str| format!("C14:{}:{}:write:{entry}:{what}", F::NAME, mqtt_ref::ast::ptype::name(ast.ptype()));
    let case = |k: usize, what: &str| json!({"kind":"write-fault","family":F::NAME,"ast":crate::astjson::to_json(ast),"pos":k,"fault":what});
    let mut faults: Vec<(WA, ErrorKind)> = KINDS.iter().filter(|k| **k != ErrorKind::Interrupted).map(|k| (WA::Err(*k), *k)).collect();
    faults.push((WA::Zero, ErrorKind::WriteZero));
    faults.push((WA::Err(ErrorKind::Interrupted), ErrorKind::Interrupted));
    // async encoder: accept k bytes (whole and byte-wise), then the fault
    for k in 0..=n {
        for bytewise in [false, true] {
            for (fault, kind) in &faults {
                let mut script: Vec<WA> = if bytewise { vec![WA::Accept(1); k] } else if k > 0 { vec![WA::Accept(k)] } else { vec![] };
                script.push(*fault);
                let mut w = ScriptedWriter::new(script, WA::Accept(usize::MAX));
                let mut a = false;
                let mut b = false;
                let r = guard(|| {
                    let wp: *const ScriptedWriter = &w;
                    let fut = F::encode_async(pkt, &mut w);
                    let mut fut = std::pin::pin!(fut);
                    drive(fut.as_mut(), 1 << 14, || unsafe { (*wp).pendings }, &mut a, &mut b).out
                });
                ctx.eval(1);
                ctx.trans(1);
                ctx.trace(1);
                let ok = match (&r, k == n) {
                    (Ok(Some(Ok(()))), true) => w.got == bytes,
                    (Ok(Some(Err(e))), false) => F::io_kind(e) == Some(*kind) && w.got == bytes[..k],
                    _ => false,
                };
                if !ok {
                    ctx.violation(
                        key("encode_async", "error-kind"),
                        format!("encode_async with sink fault {:?} after {k} of {n} bytes (bytewise={bytewise}): result {:?}, sink holds {} bytes, prefix ok: {}", fault, r, w.got.len(), bytes.starts_with(&w.got)),
                        case(k, &format!("{:?}", fault)),
                    );
                }
            }
        }
    }
    // streaming encoder into io::Write
    let mut body = Vec::new();
    match guard(|| F::body(pkt, &mut body).is_none()) {
        Ok(false) => {}
        _ => return,
    }
    let m = body.len();
    for k in 0..=m {
        for bytewise in [false, true] {
            for (fault, kind) in &faults {
              // sticky: the sink keeps failing; transient: it fails once and would accept everything afterwards
              // (an encoder that carries on after a failed write leaves a hole, not a prefix)
              for sticky in [true, false] {
                if !sticky && *kind == ErrorKind::Interrupted {
                    continue; // Interrupted is always delivered once
                }
                // whole-mode: the sink takes at most k bytes in total before the fault, whatever the call sizes
                let mut w = LimitedSink { got: Vec::new(), limit: k, per_call: if bytewise { 1 } else { usize::MAX }, fault: *fault, fired: false, sticky };
                let r = guard(|| F::body(pkt, &mut w).map(|x| x.2));
                ctx.eval(1);
                ctx.trans(1);
                ctx.trace(1);
                let ok = match (&r, k == m, *kind == ErrorKind::Interrupted) {
                    (Ok(Some(Ok(()))), true, _) => w.got == body,
                    // std's write_all retries Interrupted: the full, correct encoding must result
                    (Ok(Some(Ok(()))), false, true) => w.got == body,
                    (Ok(Some(Err(e))), false, false) => e.kind() == *kind && w.got == body[..k],
                    _ => false,
                };
                if !ok {
                    ctx.violation(
                        key("Encodable::encode", if *kind == ErrorKind::WriteZero { "zero-write" } else { "error-kind" }),
                        format!("streaming body encoder with sink fault {:?} (sticky={sticky}) after {k} of {m} bytes (bytewise={bytewise}): result {:?}, sink holds {} bytes, prefix ok: {}", fault, r.as_ref().map(|o| o.as_ref().map(|r| r.as_ref().map_err(|e| e.kind()))), w.got.len(), body.starts_with(&w.got)),
                        case(k, &format!("{:?}{}", fault, if sticky { "" } else { " (once)" })),
                    );
                }
              }
            }
        }
    }
}

/// io::Write that accepts `limit` bytes in total, then answers `fault` once (Interrupted) or forever
struct LimitedSink {
    got: Vec<u8>,
    limit: usize,
    per_call: usize,
    fault: WA,
    fired: bool,
    /// false: the fault is answered once, later writes are accepted
    sticky: bool,
}

impl std::io::Write for LimitedSink {
    fn write(&mut self, buf: &[u8]) -> std::io::Result<usize> {
        if self.got.len() >= self.limit {
            let interrupted = matches!(self.fault, WA::Err(ErrorKind::Interrupted));
            if !((interrupted || !self.sticky) && self.fired) {
                self.fired = true;
                return match self.fault {
                    WA::Zero => Ok(0),
                    WA::Err(k) => Err(std::io::Error::new(k, "injected")),
                    _ => Ok(0),
                };
            }
            // after the single Interrupted / transient fault: accept everything
            let n = buf.len().min(self.per_call);
            self.got.extend_from_slice(&buf[..n]);
            return Ok(n);
        }
        let n = buf.len().min(self.per_call).min(self.limit - self.got.len());
        self.got.extend_from_slice(&buf[..n]);
        Ok(n)
    }
    fn flush(&mut self) -> std::io::Result<()> {
        Ok(())
    }
}

fn c14_conversions(ctx: &Ctx) {
    use mqtt_proto::Error as E;
    for k in ALL_KINDS {
        let e: E = std::io::Error::new(*k, "x").into();
        let e5: mqtt_proto::v5::ErrorV5 = std::io::Error::new(*k, "x").into();
        let back: std::io::Error = e.clone().into();
        ctx.eval(3);
        ctx.trace(3);
        let ok = matches!(&e, E::IoError(kk, _) if kk == k)
            && matches!(&e5, mqtt_proto::v5::ErrorV5::Common(E::IoError(kk, _)) if kk == k)
            && back.kind() == *k
            && e.is_eof() == (*k == ErrorKind::UnexpectedEof)
            && e5.is_eof() == (*k == ErrorKind::UnexpectedEof);
        if !ok {
            ctx.violation("C14:conversion:io-kind".into(), format!("io::ErrorKind::{:?} -> {:?} / {:?} -> io kind {:?}", k, e, e5, back.kind()), json!({"kind":"conversion","io_kind":format!("{:?}",k)}));
        }
    }
    let protos: Vec<E> = vec![
        E::InvalidRemainingLength,
        E::EmptySubscription,
        E::ZeroPid,
        E::InvalidQos(3),
        E::InvalidConnectFlags(1),
        E::InvalidConnackFlags(2),
        E::InvalidConnectReturnCode(6),
        E::InvalidProtocol("x".into(), 1),
        E::UnexpectedProtocol(Protocol::V500),
        E::InvalidHeader,
        E::InvalidVarByteInt,
        E::InvalidTopicName("+".into()),
        E::InvalidTopicFilter("".into()),
        E::InvalidString,
    ];
    for e in protos {
        let io: std::io::Error = e.clone().into();
        ctx.eval(1);
        ctx.trace(1);
        if io.kind() != ErrorKind::InvalidData || e.is_eof() {
            ctx.violation("C14:conversion:protocol-error".into(), format!("{:?} converts to io kind {:?} (expected InvalidData), is_eof={}", e, io.kind(), e.is_eof()), json!({"kind":"conversion","error":format!("{:?}",e)}));
        }
    }
    use mqtt_proto::v5::{ErrorV5, PacketType, PropertyId};
    for e in [
        ErrorV5::InvalidReasonCode(PacketType::Puback, 1),
        ErrorV5::InvalidSubscriptionOption(0xC0),
        ErrorV5::InvalidPayloadFormat,
        ErrorV5::InvalidResponseTopic,
        ErrorV5::InvalidPropertyId(0),
        ErrorV5::InvalidPropertyLength(1),
        ErrorV5::InvalidByteProperty(PropertyId::MaximumQoS, 2),
        ErrorV5::DuplicatedProperty(PropertyId::ReasonString),
        ErrorV5::InvalidProperty(PacketType::Auth, PropertyId::TopicAlias),
        ErrorV5::InvalidWillProperty(PropertyId::TopicAlias),
        ErrorV5::Common(E::ZeroPid),
    ] {
        ctx.eval(1);
        if e.is_eof() {
            ctx.violation("C14:conversion:v5-is-eof".into(), format!("{:?} is classified as EOF", e), json!({"kind":"conversion","error":format!("{:?}",e)}));
        }
    }
}

pub fn c14(ctx: &Ctx) {
    ctx.set_rule("U_small plus the full packets of U_field (every optional field and property present) plus one packet with a 2-byte and one with a 3-byte header, EVERY fault position 0..=len, kinds {ConnectionReset, ConnectionAborted, BrokenPipe, TimedOut, PermissionDenied, WouldBlock, Interrupted, InvalidData, Other, UnexpectedEof} plus end-of-stream; delivery before the fault whole and byte-wise. Read side: decode_async, Header::decode_async, poll decoder (future kept / re-created). Write side: encode_async (error kinds, zero-length write -> WriteZero) and Encodable::encode into io::Write (error kinds, Ok(0) -> WriteZero, Interrupted retried to the full encoding; every fault both sticky - the sink keeps failing - and transient - it fails once and would accept everything afterwards, so an encoder that carries on after a failed write leaves a hole); the sink must hold exactly the first `pos` bytes of encode(). Conversions: 38 io::ErrorKind values through From<io::Error> for Error/ErrorV5 and back, every protocol error to InvalidData. Non-trivial = (packet, position, kind) triples with 0 < position < len");
    fn fam<F: Fam>(ctx: &Ctx) {
        let mut hosts: Vec<Ast> = u_small(F::FAMILY);
        let _ = ctx.thorough();
        hosts.extend(crate::checks::values::u_tiny(F::FAMILY));
        // full packets: every optional field and every property present, so that every read / write site has a fault position
        hosts.extend(mqtt_ref::genfield::bases(F::FAMILY));
        hosts.extend(gen::u_size(F::FAMILY, &[], &[128, 200, 16384]).into_iter().filter(|a| matches!(a, Ast::Publish { qos: 0, .. })));
        ctx.count(&format!("{}_packets", F::NAME), hosts.len() as u64);
        let triples = std::sync::atomic::AtomicU64::new(0);
        hosts.par_iter().for_each(|a| {
            let pkt = match guard(|| F::from_ast(a)) {
                Ok(Some(p)) => p,
                _ => return,
            };
            let bytes = match guard(|| F::encode(&pkt)) {
                Ok(Ok(b)) => b.as_ref().to_vec(),
                _ => return,
            };
            if bytes.len() > 20_000 {
                return;
            }
            ctx.state(1);
            c14_one::<F>(ctx, a);
            if bytes.len() <= 400 {
                triples.fetch_add((bytes.len().saturating_sub(1) * (KINDS.len() + 1)) as u64, std::sync::atomic::Ordering::Relaxed);
            }
        });
        ctx.nontriv(triples.load(std::sync::atomic::Ordering::Relaxed));
    }
    fam::<V3>(ctx);
    fam::<V5>(ctx);
    c14_conversions(ctx);
    ctx.sample(json!({"packet": "v3 SUBSCRIBE 82 06 00 01 00 01 61 01", "fault": "ConnectionReset at position 5", "expect": "IoError(ConnectionReset) from decode_async and the poll decoder"}));
    ctx.sample(json!({"packet": "v5 PUBACK 40 03 00 01 10", "fault": "zero-length write after 2 body bytes", "expect": "WriteZero, sink holds 00 01"}));
    ctx.sample(json!({"conversion": "io::ErrorKind::TimedOut -> Error::IoError(TimedOut, _) -> io::ErrorKind::TimedOut"}));
}

/// packets with 2- and 3-byte headers: fault positions around the header, inside the body start and at the end
fn c14_read_sparse<F: Fam>(ctx: &Ctx, ast: &Ast, pkt: &F::Packet, bytes: &[u8]) {
    let n = bytes.len();
    let hl = dec::header(bytes).map(|h| h.2).unwrap_or(2);
    let mut pos: Vec<usize> = (0..(hl + 6)).collect();
    pos.extend([n / 2, n - 2, n - 1, n]);
    let key = |front: &str| format!("C14:{}:{}:read:{front}:long-header", F::NAME, mqtt_ref::ast::ptype::name(ast.ptype()));
    for k in pos {
        for (fault, kind) in [(RA::Err(ErrorKind::ConnectionReset), Some(ErrorKind::ConnectionReset)), (RA::Err(ErrorKind::TimedOut), Some(ErrorKind::TimedOut)), (RA::Eof, None)] {
            for cuts in [vec![], (1..k.min(hl + 3)).collect::<Vec<usize>>()] {
                let r = guard(|| {
                    let mut rd = ChunkedReader::new(&bytes[..k], &cuts, false);
                    rd.at_end = fault;
                    run_ready(F::decode_async(&mut rd))
                });
                let mut rd = ChunkedReader::new(&bytes[..k], &cuts, false);
                rd.at_end = fault;
                let mut st: mqtt_proto::GenericPollPacketState<F::Header> = Default::default();
                let (raw, panic, _, _, _, _) = front::poll_over::<F, ChunkedReader>(&mut rd, &mut st, true, n * 2 + 64, &|r| r.log.pendings, &|r| r.log.reads.clone());
                ctx.eval(2);
                ctx.trans(2);
                ctx.trace(2);
                let judge = |e: &F::Error| match kind {
                    Some(kd) => F::io_kind(e) == Some(kd),
                    None => F::is_eof(e),
                };
                let ok_a = match (&r, k == n) {
                    (Ok(Some(Ok(p))), true) => p == pkt,
                    (Ok(Some(Err(e))), false) => judge(e),
                    _ => false,
                };
                let ok_p = panic.is_none()
                    && match (&raw, k == n) {
                        (Some(Ok((t, _, p))), true) => p == pkt && *t == n,
                        (Some(Err(e)), false) => judge(e),
                        _ => false,
                    };
                if !ok_a {
                    ctx.violation(key("async"), format!("decode_async with {:?} at {k} of {n} (header {hl} bytes): {:?}", fault, r.as_ref().map(|o| o.as_ref().map(|r| r.as_ref().map(|_| "packet")))), json!({"kind":"read-fault","family":F::NAME,"ast":crate::astjson::to_json(ast),"pos":k,"fault":format!("{:?}",fault)}));
                }
                if !ok_p {
                    ctx.violation(key("poll"), format!("poll decoder with {:?} at {k} of {n} (header {hl} bytes): {:?} panic {:?}", fault, raw.as_ref().map(|r| r.as_ref().map(|x| x.0)), panic), json!({"kind":"read-fault","family":F::NAME,"ast":crate::astjson::to_json(ast),"pos":k,"fault":format!("{:?}",fault)}));
                }
            }
        }
    }
}

/// all fault positions of one value (read and write side)
pub fn c14_one<F: Fam>(ctx: &Ctx, a: &Ast) {
    let pkt = match guard(|| F::from_ast(a)) {
        Ok(Some(p)) => p,
        _ => return,
    };
    let bytes = match guard(|| F::encode(&pkt)) {
        Ok(Ok(b)) => b.as_ref().to_vec(),
        _ => return,
    };
    if bytes.len() <= 400 {
        c14_read::<F>(ctx, a, &pkt, &bytes);
        c14_write::<F>(ctx, a, &pkt, &bytes);
    } else if bytes.len() <= 20_000 {
        // long packets: positions around the header and the ends only
        c14_read_sparse::<F>(ctx, a, &pkt, &bytes);
    }
}

pub fn c14_bytes<F: Fam>(ctx: &Ctx, b: &[u8]) {
    if let dec::Verdict::Accept { ast, .. } = dec::decode(F::FAMILY, b) {
        c14_one::<F>(ctx, &ast);
    }
}

pub fn c14_conversions_pub(ctx: &Ctx) {
    c14_conversions(ctx);
}

/// replay helper: a CONNECT given to the decoder of family `v3_decoder`
pub fn c13_replay(ctx: &Ctx, v3_decoder: bool, b: &[u8]) {
    if v3_decoder {
        match dec::decode(Family::V5, b) {
            dec::Verdict::Accept { ast, .. } => c13_cross::<V3, V5>(ctx, &ast, b, 5),
            _ => {
                if let dec::Verdict::Accept { ast, .. } = dec::decode(Family::V3, b) {
                    c13_native::<V3>(ctx, &ast, b);
                }
            }
        }
    } else {
        match dec::decode(Family::V3, b) {
            dec::Verdict::Accept { ast, .. } => {
                let level = if let Ast::Connect { level, .. } = &ast { *level } else { 4 };
                c13_cross::<V5, V3>(ctx, &ast, b, level)
            }
            _ => {
                if let dec::Verdict::Accept { ast, .. } = dec::decode(Family::V5, b) {
                    c13_native::<V5>(ctx, &ast, b);
                }
            }
        }
    }
    // and the (name, level) classification of exactly these bytes
    let _ = b;
}

pub fn c13_protocol_new(ctx: &Ctx, name: &[u8], level: u8) {
    let known = matches!((name, level), (b"MQIsdp", 3) | (b"MQTT", 4) | (b"MQTT", 5));
    let r = guard(|| Protocol::new(name, level));
    let ok = match (&r, known) {
        (Ok(Ok(p)), true) => *p == proto_of(level),
        (Ok(Err(mqtt_proto::Error::InvalidProtocol(n, l))), false) => n.as_bytes() == name && *l == level,
        (Ok(Err(mqtt_proto::Error::InvalidString)), false) => std::str::from_utf8(name).is_err(),
        _ => false,
    };
    if !ok {
        ctx.violation("C13:Protocol::new".into(), format!("Protocol::new({:?},{level}) = {:?}", String::from_utf8_lossy(name), r), json!({"kind":"protocol-new","name":hex(name),"level":level}));
    }
}
