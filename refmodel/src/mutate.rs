//! Structure-aware fault injection on the tagged tree of `enc`, and the single-fault
//! malformation catalogue (DESIGN.md 4.2). Every candidate produced here is classified by
//! `dec::decode`; a candidate is kept only if the reference decoder reports exactly the
//! intended violation, so the catalogue checks itself.

use crate::ast::ptype::*;
use crate::ast::*;
use crate::dec::{self, Verdict, Viol};
use crate::enc::{self, BinKind, Frame, Node, StrKind, Tag};
use crate::tables::{self, PType};

pub type Path = Vec<usize>;

fn walk(n: &Node, path: &mut Path, out: &mut Vec<(Path, Tag)>) {
    match n {
        Node::Raw(_) => {}
        Node::Tag(t, c) => {
            out.push((path.clone(), *t));
            path.push(0);
            walk(c, path, out);
            path.pop();
        }
        Node::Seq(v) => {
            for (i, c) in v.iter().enumerate() {
                path.push(i);
                walk(c, path, out);
                path.pop();
            }
        }
        Node::Len16(c) | Node::VarLen(_, c) | Node::LenRaw(_, c) => {
            path.push(0);
            walk(c, path, out);
            path.pop();
        }
    }
}

/// All tagged nodes with their paths, in wire order.
pub fn sites(n: &Node) -> Vec<(Path, Tag)> {
    let mut out = Vec::new();
    walk(n, &mut Vec::new(), &mut out);
    out
}

pub fn get<'a>(n: &'a Node, path: &[usize]) -> &'a Node {
    if path.is_empty() {
        return n;
    }
    match n {
        Node::Seq(v) => get(&v[path[0]], &path[1..]),
        Node::Tag(_, c) | Node::Len16(c) | Node::VarLen(_, c) | Node::LenRaw(_, c) => get(c, &path[1..]),
        Node::Raw(_) => panic!("path into raw"),
    }
}

pub fn replace(n: &Node, path: &[usize], new: Node) -> Node {
    if path.is_empty() {
        return new;
    }
    match n {
        Node::Seq(v) => {
            let mut v = v.clone();
            v[path[0]] = replace(&v[path[0]], &path[1..], new);
            Node::Seq(v)
        }
        Node::Tag(t, c) => Node::Tag(*t, Box::new(replace(c, &path[1..], new))),
        Node::Len16(c) => Node::Len16(Box::new(replace(c, &path[1..], new))),
        Node::VarLen(p, c) => Node::VarLen(*p, Box::new(replace(c, &path[1..], new))),
        Node::LenRaw(l, c) => Node::LenRaw(l.clone(), Box::new(replace(c, &path[1..], new))),
        Node::Raw(_) => panic!("path into raw"),
    }
}

/// Content bytes of a `Tag(Str|Bin, Len16(Raw))` node.
pub fn content(n: &Node) -> Vec<u8> {
    match n {
        Node::Tag(_, c) => content(c),
        Node::Len16(c) => c.flatten().unwrap(),
        other => other.flatten().unwrap(),
    }
}

fn with_content(tag: Tag, bytes: &[u8]) -> Node {
    Node::tag(tag, Node::Len16(Box::new(Node::raw(bytes))))
}

#[derive(Clone, Debug)]
pub struct Mal {
    /// catalogue row
    pub kind: &'static str,
    /// where it was injected
    pub site: String,
    pub bytes: Vec<u8>,
    pub expect: Viol,
}

pub const BAD_UTF8: &[&[u8]] = &[
    &[0xFF],
    &[0xC0, 0x80],             // over-long NUL
    &[0xED, 0xA0, 0x80],       // surrogate U+D800
    &[0xF4, 0x90, 0x80, 0x80], // above U+10FFFF
    &[0xE2, 0x82],             // truncated sequence
    &[b'a', 0x80, b'b'],       // stray continuation
];

pub const BAD_FILTERS: &[&str] =
    &["", "a#", "#/a", "a/#/b", "+a", "a+", "a/+b", "a/b+/c", "\0", "a/\0", "$share/", "$share/g", "$share/g/", "$share//a", "$share/g+/a", "$share/g/a#", "+x", "a/+x"];

pub const BAD_TOPIC_NAMES: &[&str] = &["+", "#", "a/+", "a/#", "a+b", "\0", "a\0b", "$share/g/+"];

fn base_value(def: &tables::PropDef) -> PVal {
    match def.typ {
        PType::Byte => PVal::Byte(1),
        PType::U16 => PVal::U16(0x0102),
        PType::U32 => PVal::U32(0x01020304),
        PType::VarInt => PVal::VarInt(1),
        PType::Str => PVal::Str("s".into()),
        PType::Bin => PVal::Bin(vec![0xFF]),
        PType::Pair => PVal::Pair("k".into(), "v".into()),
    }
}

/// One encoded property as a node (owner only matters for the tags).
fn prop_item(owner: u8, p: &Prop, idx: usize) -> Node {
    match enc::props_node(owner, &vec![p.clone()], 0, 0) {
        Node::Tag(_, b) => match *b {
            Node::VarLen(_, c) => match *c {
                Node::Seq(mut v) => match v.pop().unwrap() {
                    Node::Tag(Tag::Prop(o, id, _), inner) => Node::Tag(Tag::Prop(o, id, idx), inner),
                    _ => unreachable!(),
                },
                _ => unreachable!(),
            },
            _ => unreachable!(),
        },
        _ => unreachable!(),
    }
}

/// All single-fault candidates for one well-formed frame of `family`, unfiltered.
/// byte values used where the full range 0..=255 is thinned out
fn thin_bytes(thin: bool, all: std::ops::RangeInclusive<u8>) -> Vec<u8> {
    if !thin {
        return all.collect();
    }
    let keep = [0u8, 1, 2, 3, 4, 5, 6, 0x0A, 0x10, 0x2B, 0x7F, 0x80, 0x81, 0x83, 0x84, 0x85, 0x93, 0xA3, 0xFE, 0xFF];
    all.filter(|b| keep.contains(b)).collect()
}

fn candidates(family: Family, ast: &Ast, f: &Frame, thin: bool) -> Vec<(&'static str, String, Frame, Viol)> {
    let v5 = family == Family::V5;
    let t = f.control >> 4;
    let mut out: Vec<(&'static str, String, Frame, Viol)> = Vec::new();
    let mk = |body: Node| Frame { control: f.control, rl_pad: 0, rl_raw: None, body };

    // --- fixed header -------------------------------------------------------------
    if t == PUBLISH {
        for fl in [0b0110u8, 0b0111, 0b1110, 0b1111] {
            let mut g = f.clone();
            g.control = (t << 4) | fl;
            out.push(("header-publish-qos3", format!("control={:#04x}", g.control), g, Viol::PublishQos3));
        }
    } else {
        for fl in 0..16u8 {
            if Some(fl) != tables::fixed_flags(t) {
                let mut g = f.clone();
                g.control = (t << 4) | fl;
                out.push(("header-flags", format!("control={:#04x}", g.control), g.clone(), Viol::BadFlags(g.control)));
            }
        }
    }
    for bad_t in if v5 { vec![0u8] } else { vec![0u8, 15] } {
        for fl in [0u8, f.control & 0x0F] {
            let mut g = f.clone();
            g.control = (bad_t << 4) | fl;
            out.push(("header-type", format!("control={:#04x}", g.control), g, Viol::BadType(bad_t)));
        }
    }
    {
        let mut g = f.clone();
        g.rl_raw = Some(vec![0xFF, 0xFF, 0xFF, 0xFF, 0x01]);
        out.push(("remaining-length-5-bytes", "header".into(), g, Viol::VarIntTooLong));
        let mut g = f.clone();
        g.rl_raw = Some(vec![0x80, 0x80, 0x80, 0x80, 0x00]);
        out.push(("remaining-length-5-bytes", "header".into(), g, Viol::VarIntTooLong));
        // the input ends right after the fourth continuation byte: already over-long
        for raw in [vec![0x80u8, 0x80, 0x80, 0x80], vec![0xFF, 0xFF, 0xFF, 0xFF]] {
            let mut g = f.clone();
            g.rl_raw = Some(raw);
            g.body = Node::Seq(vec![]);
            out.push(("remaining-length-5-bytes", "header, input ends after the 4th continuation byte".into(), g, Viol::VarIntTooLong));
        }
    }

    // --- body sites ---------------------------------------------------------------
    let has_will = matches!(ast, Ast::Connect { will: Some(_), .. });
    let will_pfi = match ast {
        Ast::Connect { will: Some(w), .. } => {
            w.props.iter().any(|p| p.id == tables::PAYLOAD_FORMAT_INDICATOR && p.val == PVal::Byte(1))
        }
        _ => false,
    };
    for (path, tag) in sites(&f.body) {
        let here = get(&f.body, &path);
        let site = format!("{:?}@{:?}", tag, path);
        let mut put = |kind: &'static str, n: Node, v: Viol| out.push((kind, site.clone(), mk(replace(&f.body, &path, n)), v));
        match tag {
            Tag::Pid => put("zero-pid", Node::tag(tag, Node::raw(&[0, 0])), Viol::ZeroPid),
            Tag::Str(kind) => {
                for b in BAD_UTF8 {
                    put("non-utf8-string", with_content(tag, b), Viol::BadUtf8);
                }
                let orig = String::from_utf8(content(here)).unwrap();
                match kind {
                    StrKind::Topic | StrKind::WillTopic => {
                        for s in BAD_TOPIC_NAMES {
                            put("wildcard-in-topic-name", with_content(tag, s.as_bytes()), Viol::BadTopicName(s.to_string()));
                        }
                        for ch in ['+', '#', '\0'] {
                            let s = format!("{orig}{ch}");
                            put("wildcard-in-topic-name", with_content(tag, s.as_bytes()), Viol::BadTopicName(s.clone()));
                            let s = format!("{ch}{orig}");
                            put("wildcard-in-topic-name", with_content(tag, s.as_bytes()), Viol::BadTopicName(s.clone()));
                        }
                    }
                    StrKind::Prop(_, id) if id == tables::RESPONSE_TOPIC => {
                        for s in BAD_TOPIC_NAMES {
                            put("wildcard-in-response-topic", with_content(tag, s.as_bytes()), Viol::BadResponseTopic);
                        }
                    }
                    StrKind::Filter(_) => {
                        for s in BAD_FILTERS {
                            put("invalid-topic-filter", with_content(tag, s.as_bytes()), Viol::BadFilter(s.to_string()));
                        }
                        for s in [format!("{orig}#"), format!("{orig}/#/x"), format!("+{orig}"), format!("{orig}+")] {
                            put("invalid-topic-filter", with_content(tag, s.as_bytes()), Viol::BadFilter(s.clone()));
                        }
                    }
                    StrKind::ProtoName => {}
                    _ => {}
                }
            }
            Tag::Bin(BinKind::WillPayload) if will_pfi => {
                for b in BAD_UTF8 {
                    put("utf8-flagged-payload-not-utf8", with_content(tag, b), Viol::BadPayloadFormat);
                }
            }
            Tag::Payload(true) => {
                for b in BAD_UTF8 {
                    put("utf8-flagged-payload-not-utf8", Node::tag(tag, Node::raw(b)), Viol::BadPayloadFormat);
                }
            }
            Tag::Code(pt, pos) => {
                for n in thin_bytes(thin && pos > 0, 0..=255u8) {
                    if v5 {
                        if !tables::reason_codes(pt).contains(&n) {
                            put("reason-code-not-in-table", Node::tag(tag, Node::raw(&[n])), Viol::BadReasonCode(pt, n));
                        }
                    } else if pt == CONNACK {
                        if !tables::V3_CONNACK_CODES.contains(&n) {
                            put("v3-connack-code", Node::tag(tag, Node::raw(&[n])), Viol::BadConnackCode(n));
                        }
                    } else if pt == SUBACK && !tables::V3_SUBACK_CODES.contains(&n) {
                        put("v3-suback-code", Node::tag(tag, Node::raw(&[n])), Viol::BadSubackCode(n));
                    }
                }
            }
            Tag::ConnackFlags => {
                for n in thin_bytes(thin, 2..=255u8) {
                    put("connack-flags", Node::tag(tag, Node::raw(&[n])), Viol::BadConnackFlags(n));
                }
            }
            Tag::ConnectFlags => {
                let cf = content(here)[0];
                put("connect-reserved-flag", Node::tag(tag, Node::raw(&[cf | 1])), Viol::BadConnectFlags(cf | 1));
                if has_will {
                    let b = cf | 0x18;
                    put("will-qos-3", Node::tag(tag, Node::raw(&[b])), Viol::BadQos(3));
                } else {
                    for q in 1..=3u8 {
                        let b = cf | (q << 3);
                        put("will-qos-without-will", Node::tag(tag, Node::raw(&[b])), Viol::BadConnectFlags(b));
                    }
                }
            }
            Tag::SubOpts(_) => {
                let o = content(here)[0];
                if v5 {
                    for b in [o | 0x40, o | 0x80, o | 0xC0, o | 0x03, o | 0x30] {
                        put("subscription-option-bits", Node::tag(tag, Node::raw(&[b])), Viol::BadSubOpts(b));
                    }
                } else {
                    for n in thin_bytes(thin, 3..=255u8) {
                        put("v3-subscribe-qos", Node::tag(tag, Node::raw(&[n])), Viol::BadQos(n));
                    }
                }
            }
            Tag::PropId(_, _) => {
                for n in thin_bytes(thin, 0..=255u8) {
                    if tables::prop_def(n).is_none() {
                        put("unknown-property-id", Node::tag(tag, Node::raw(&[n])), Viol::UnknownPropId(n));
                    }
                }
            }
            Tag::PropByte(_, id) => {
                for v in thin_bytes(thin, 2..=255u8) {
                    put("byte-property-out-of-range", Node::tag(tag, Node::raw(&[v])), Viol::BadByteProp(id, v));
                }
            }
            Tag::PropVarInt(_, _) => {
                put("property-varint-5-bytes", Node::tag(tag, Node::raw(&[0xFF, 0xFF, 0xFF, 0xFF, 0x01])), Viol::VarIntTooLong);
            }
            Tag::PropSet(owner) => {
                // the set itself: Tag(PropSet, VarLen(pad, Seq[items]))
                let items: Vec<Node> = match here {
                    Node::Tag(_, b) => match &**b {
                        Node::VarLen(_, c) => match &**c {
                            Node::Seq(v) => v.clone(),
                            _ => unreachable!(),
                        },
                        _ => unreachable!(),
                    },
                    _ => unreachable!(),
                };
                let rebuild = |items: Vec<Node>| Node::tag(tag, Node::VarLen(0, Box::new(Node::Seq(items))));
                // a known property that is not allowed here, at every position
                for def in tables::PROPS {
                    if !def.allowed.contains(&owner) {
                        let p = Prop { id: def.id, val: base_value(def) };
                        for pos in 0..=items.len() {
                            let mut v = items.clone();
                            v.insert(pos, prop_item(owner, &p, pos));
                            let viol = if owner == WILL { Viol::WillPropNotAllowed(def.id) } else { Viol::PropNotAllowed(owner, def.id) };
                            put("property-not-allowed-here", rebuild(v), viol);
                        }
                    }
                }
                // a duplicate of a non-user property, directly after it and at the end
                for (i, it) in items.iter().enumerate() {
                    if let Node::Tag(Tag::Prop(_, id, _), _) = it {
                        if *id != tables::USER_PROPERTY && !(owner == PUBLISH && *id == tables::SUBSCRIPTION_IDENTIFIER) {
                            for pos in [i + 1, items.len()] {
                                let mut v = items.clone();
                                v.insert(pos, it.clone());
                                put("duplicated-property", rebuild(v), Viol::DupProp(*id));
                            }
                        }
                    }
                }
                // absent properties added twice
                for def in tables::props_of(owner) {
                    if def.id != tables::USER_PROPERTY
                        && !(owner == PUBLISH && def.id == tables::SUBSCRIPTION_IDENTIFIER)
                        && !items.iter().any(|it| matches!(it, Node::Tag(Tag::Prop(_, id, _), _) if *id == def.id))
                    {
                        let p = Prop { id: def.id, val: base_value(def) };
                        let mut v = items.clone();
                        v.push(prop_item(owner, &p, items.len()));
                        v.push(prop_item(owner, &p, items.len() + 1));
                        put("duplicated-property", rebuild(v), Viol::DupProp(def.id));
                    }
                }
                // declared property length too short: cuts inside the last property
                let inner = Node::Seq(items.clone()).flatten().unwrap();
                if !inner.is_empty() {
                    for cut in [1usize, 2] {
                        if inner.len() > cut {
                            let declared = (inner.len() - cut) as u32;
                            let n = Node::tag(tag, Node::LenRaw(crate::num::varint(declared), Box::new(Node::Seq(items.clone()))));
                            put("property-length-too-short", n, Viol::BadPropLen(declared));
                        }
                    }
                }
                // property length spelled with five bytes
                let n = Node::tag(tag, Node::LenRaw(vec![0xFF, 0xFF, 0xFF, 0xFF, 0x01], Box::new(Node::Seq(items.clone()))));
                put("property-length-5-bytes", n, Viol::VarIntTooLong);
            }
            Tag::List if t == SUBSCRIBE || t == UNSUBSCRIBE => {
                put("empty-subscription", Node::tag(tag, Node::Seq(vec![])), Viol::NoTopics);
            }
            Tag::ProtoLevel => {}
            _ => {}
        }
    }

    // --- protocol name / level ----------------------------------------------------
    if let Ast::Connect { .. } = ast {
        let s = sites(&f.body);
        let name_path = s.iter().find(|(_, t)| *t == Tag::Str(StrKind::ProtoName)).map(|x| x.0.clone()).unwrap();
        let level_path = s.iter().find(|(_, t)| *t == Tag::ProtoLevel).map(|x| x.0.clone()).unwrap();
        let names: &[&[u8]] = &[b"MQTT", b"MQIsdp", b"MQTt", b"MQIsd", b"", b"MQTTT", b"mqtt", b"MQISDP", b"MQIsdpX", b"MQTTMQTT"];
        for name in names {
            for level in thin_bytes(thin, 0..=255u8) {
                let known = matches!((&name[..], level), (b"MQIsdp", 3) | (b"MQTT", 4) | (b"MQTT", 5));
                let viol = if known {
                    if v5 == (level == 5) {
                        continue;
                    }
                    Viol::OtherFamily(level)
                } else {
                    Viol::BadProtocol(name.to_vec(), level)
                };
                let b = replace(&f.body, &name_path, with_content(Tag::Str(StrKind::ProtoName), name));
                let b = replace(&b, &level_path, Node::tag(Tag::ProtoLevel, Node::raw(&[level])));
                out.push(("protocol-name-level", format!("{:?}/{}", String::from_utf8_lossy(name), level), mk(b), viol));
            }
        }
    }

    // --- remaining length against the body ------------------------------------------
    if let Some(body) = f.body.flatten() {
        if !body.is_empty() {
            for cut in [1usize, 2] {
                if body.len() >= cut {
                    out.push((
                        "remaining-length-too-small",
                        format!("cut {cut}"),
                        mk(Node::raw(&body[..body.len() - cut])),
                        Viol::Truncated,
                    ));
                }
            }
        }
        for extra in [&[0u8][..], &[0x00, 0x00], &[b'a'], &[0xFF]] {
            let mut b = body.clone();
            b.extend_from_slice(extra);
            out.push(("remaining-length-too-large", format!("append {:02x?}", extra), mk(Node::raw(&b)), Viol::Trailing));
        }
    }
    // an inner 16-bit length that runs past the end of the frame
    for (path, tag) in sites(&f.body) {
        if let Tag::Str(_) | Tag::Bin(_) = tag {
            let here = get(&f.body, &path);
            let c = content(here);
            // a length that certainly runs past the end of the frame (not one that merely shifts the parse)
            let body_len = f.body.flatten().map(|b| b.len()).unwrap_or(0);
            for l in [(body_len + 1).min(65535) as u16, 0xFFFFu16] {
                if l as usize > body_len || l == 0xFFFF {
                    let n = Node::tag(tag, Node::LenRaw(l.to_be_bytes().to_vec(), Box::new(Node::raw(&c))));
                    out.push((
                        "inner-length-past-frame",
                        format!("{:?}@{:?}={}", tag, path, l),
                        mk(replace(&f.body, &path, n)),
                        Viol::Truncated,
                    ));
                }
            }
        }
    }
    out
}

#[derive(Default, Debug, Clone)]
pub struct CatalogueStats {
    pub candidates: usize,
    pub kept: usize,
    /// candidates whose reference verdict was not the intended single violation (not applicable at that site)
    pub dropped: usize,
}

/// The single-fault catalogue for one well-formed value: every candidate that the reference
/// decoder classifies as exactly the intended violation.
pub fn catalogue(family: Family, ast: &Ast, stats: &mut CatalogueStats, thin: bool) -> Vec<Mal> {
    let f = match enc::encode(family, ast, enc::Spell::default()) {
        Some(f) => f,
        None => return vec![],
    };
    let mut out = Vec::new();
    for (kind, site, frame, viol) in candidates(family, ast, &f, thin) {
        stats.candidates += 1;
        let bytes = match frame.bytes() {
            Some(b) => b,
            None => {
                stats.dropped += 1;
                continue;
            }
        };
        // 5-byte remaining lengths make the input "not one frame" for the splitter; the reference
        // decoder classifies them from the header alone.
        match dec::decode(family, &bytes) {
            Verdict::Reject(v) if v == viol => {
                stats.kept += 1;
                out.push(Mal { kind, site, bytes, expect: viol });
            }
            _ => stats.dropped += 1,
        }
    }
    out
}
