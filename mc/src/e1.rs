//! Engine E1: explicit-state exploration (stateright BFS) of the poll decoder. The transition
//! function IS the implementation: a state is a canonical snapshot of the caller-owned
//! `GenericPollPacketState` plus the transport position; a transition restores the real state,
//! builds a NEW `GenericPollPacket` (so every transition is also a drop-and-recreate point), calls
//! the real `poll` once against a scripted transport, and snapshots again (DESIGN.md 3.5).

use crate::env::{noop_waker, ScriptedReader, RA};
use crate::ev::{guard, hex, last_panic_loc, Violation};
use crate::fam::Fam;
use crate::front::{self, Out};
use mqtt_proto::{GenericPollBodyState, GenericPollPacket, GenericPollPacketState, PollHeaderState};
use serde_json::{json, Value};
use stateright::{Checker, HasDiscoveries, Model, Property};
use std::future::Future;
use std::marker::PhantomData;
use std::mem::MaybeUninit;
use std::pin::Pin;
use std::sync::atomic::{AtomicU64, Ordering::Relaxed};
use std::sync::{Arc, Mutex};
use std::task::{Context, Poll};

#[derive(Clone, Debug)]
pub struct Stream {
    /// frames back to back, followed by a sentinel that must never be consumed
    pub bytes: Vec<u8>,
    /// exclusive end offset of every frame
    pub ends: Vec<usize>,
    pub label: String,
}

impl Stream {
    pub fn single(frame: &[u8], label: &str) -> Stream {
        let mut bytes = frame.to_vec();
        bytes.extend_from_slice(&[0xD0, 0x00, 0xFF]);
        Stream { bytes, ends: vec![frame.len()], label: label.to_string() }
    }
    pub fn sequence(frames: &[Vec<u8>], label: &str) -> Stream {
        let mut bytes = Vec::new();
        let mut ends = Vec::new();
        for f in frames {
            bytes.extend_from_slice(f);
            ends.push(bytes.len());
        }
        Stream { bytes, ends, label: label.to_string() }
    }
    fn start(&self, pkt: usize) -> usize {
        if pkt == 0 {
            0
        } else {
            self.ends[pkt - 1]
        }
    }
}

#[derive(Clone, Debug, PartialEq, Eq, Hash)]
pub enum Snap<H> {
    Header { cb: Option<u8>, var_idx: u8, var_int: u32 },
    Body { header: H, total: usize, idx: usize, len: usize, prefix: Vec<u8> },
}

#[derive(Clone, Copy, Debug, PartialEq, Eq, Hash)]
pub enum Status {
    Running,
    /// a packet was returned; the caller must reset the state before the next one
    DoneOk,
    /// terminal: error returned / final end-of-stream observed
    Finished,
    Violated,
}

#[derive(Clone, Debug, PartialEq, Eq, Hash)]
pub struct St<H> {
    pub stream: u32,
    pub pkt: u16,
    pub pos: u32,
    /// non-default deliveries used so far (only counted for long frames)
    pub dev: u8,
    pub snap: Snap<H>,
    pub status: Status,
}

#[derive(Clone, Copy, Debug, PartialEq, Eq, Hash)]
pub enum End {
    Pending,
    Eof,
    Err,
}

#[derive(Clone, Debug, PartialEq, Eq, Hash)]
pub enum Act {
    /// one `poll` call: the transport hands over `chunks[i]` bytes on the i-th read, then answers `end`
    Step { chunks: Vec<u32>, end: End },
    /// the caller resets its state after a packet
    Reset,
    /// one more decode at the end of the stream
    FinalEof,
}

#[derive(Default)]
pub struct Stats {
    pub transitions: AtomicU64,
    pub polls: AtomicU64,
    pub done_ok: AtomicU64,
    pub finished_err: AtomicU64,
    pub partial_body_states: AtomicU64,
    pub oracle_runs: AtomicU64,
    /// states whose representation differs from the reference abstraction function (informational)
    pub repr_mismatch: AtomicU64,
    pub violations: Mutex<Vec<Violation>>,
}

pub struct PollModel<F: Fam> {
    pub prop: &'static str,
    pub streams: Arc<Vec<Stream>>,
    /// answers per poll call
    pub r: usize,
    /// frames up to this size get ALL chunk sizes, longer ones the boundary alphabet
    pub all_k_below: usize,
    /// maximum non-default deliveries per path for long frames
    pub max_dev: u8,
    /// explore end-of-stream / error answers
    pub faults: bool,
    pub stats: Arc<Stats>,
    pub _f: PhantomData<F>,
}

pub fn snapshot<F: Fam>(st: &GenericPollPacketState<F::Header>) -> Snap<F::Header> {
    match st {
        GenericPollPacketState::Header(h) => Snap::Header { cb: h.control_byte, var_idx: h.var_idx, var_int: h.var_int },
        GenericPollPacketState::Body(b) => {
            // only the initialised prefix is ever read
            let n = b.idx.min(b.buf.len());
            let prefix: Vec<u8> = b.buf[..n].iter().map(|x| unsafe { x.assume_init() }).collect();
            Snap::Body { header: b.header, total: b.total, idx: b.idx, len: b.buf.len(), prefix }
        }
    }
}

pub fn restore<F: Fam>(s: &Snap<F::Header>) -> GenericPollPacketState<F::Header> {
    match s {
        Snap::Header { cb, var_idx, var_int } => GenericPollPacketState::Header(PollHeaderState { control_byte: *cb, var_idx: *var_idx, var_int: *var_int }),
        Snap::Body { header, total, idx, len, prefix } => {
            let mut buf: Vec<MaybeUninit<u8>> = Vec::with_capacity(*len);
            unsafe { buf.set_len(*len) };
            for (i, b) in prefix.iter().enumerate() {
                if i < *len {
                    buf[i] = MaybeUninit::new(*b);
                }
            }
            GenericPollPacketState::Body(GenericPollBodyState { header: *header, total: *total, idx: *idx, buf })
        }
    }
}

/// What the caller-owned state must be after the transport has handed over the first `p` bytes of
/// the frame that starts at `b[0]` - a function of the consumed prefix only.
pub fn ref_poll_state<F: Fam>(b: &[u8], p: usize) -> Option<Snap<F::Header>> {
    if p == 0 {
        return Some(Snap::Header { cb: None, var_idx: 0, var_int: 0 });
    }
    let control = b[0];
    let mut var_int: u32 = 0;
    for i in 1..p {
        let byte = b[i];
        var_int |= ((byte & 0x7F) as u32) << (7 * (i as u32 - 1));
        if byte & 0x80 == 0 {
            let hl = i + 1;
            let rem = var_int as usize;
            let header = F::header_new_with(control, var_int).ok()?;
            return Some(Snap::Body { header, total: hl + rem, idx: p - hl, len: rem, prefix: b[hl..p].to_vec() });
        }
        if i >= 4 {
            return None; // a fifth length byte never leaves a stored state
        }
    }
    Some(Snap::Header { cb: Some(control), var_idx: (p - 1) as u8, var_int })
}

fn snap_json<H: std::fmt::Debug>(s: &Snap<H>) -> Value {
    match s {
        Snap::Header { cb, var_idx, var_int } => json!({"state":"header","control_byte":cb,"var_idx":var_idx,"var_int":var_int}),
        Snap::Body { header, total, idx, len, prefix } => json!({"state":"body","header":format!("{:?}",header),"total":total,"idx":idx,"len":len,"prefix":hex(prefix)}),
    }
}

fn end_ra(e: End) -> RA {
    match e {
        End::Pending => RA::Pending,
        End::Eof => RA::Eof,
        End::Err => RA::Err(std::io::ErrorKind::ConnectionReset),
    }
}

impl<F: Fam> PollModel<F> {
    fn violate(&self, s: &St<F::Header>, a: &Act, key: &str, what: String) -> St<F::Header> {
        let stream = &self.streams[s.stream as usize];
        let case = json!({
            "kind": "e1-step", "family": F::NAME, "property": self.prop,
            "stream": hex(&stream.bytes), "ends": stream.ends, "label": stream.label,
            "pkt": s.pkt, "pos": s.pos, "snap": snap_json(&s.snap), "action": format!("{:?}", a),
        });
        let mut v = self.stats.violations.lock().unwrap();
        if v.len() < 200 {
            v.push(Violation { key: format!("{}:{}:e1:{key}", self.prop, F::NAME), what: format!("stream {} [{}] pkt {} pos {} state {} action {:?}: {what}", crate::ev::hex_short(&stream.bytes), stream.label, s.pkt, s.pos, snap_json(&s.snap), a), case });
        }
        let mut n = s.clone();
        n.status = Status::Violated;
        n
    }

    /// a fresh, uninterrupted read of `bytes[start..upto]` followed by `end`
    fn oracle(&self, stream: &Stream, start: usize, upto: usize, end: End) -> (Out<F>, Option<usize>) {
        self.stats.oracle_runs.fetch_add(1, Relaxed);
        let at_end = match end {
            End::Pending | End::Eof => RA::Eof,
            End::Err => RA::Err(std::io::ErrorKind::ConnectionReset),
        };
        let data = &stream.bytes[start..upto];
        let mut rd = front::ChunkedReader::new(data, &[], false);
        rd.at_end = at_end;
        let mut st: GenericPollPacketState<F::Header> = Default::default();
        let (raw, panic, sp, sw, un, polls) = front::poll_over::<F, front::ChunkedReader>(&mut rd, &mut st, false, 16, &|r| r.log.pendings, &|r| r.log.reads.clone());
        let r = front::PollRun::<F> { raw, panic, consumed: rd.pos, log: rd.log.clone(), spurious_pending: sp, swallowed_pending: sw, uninit_exposed: un, polls };
        (r.out(), r.total())
    }
}

impl<F: Fam> Model for PollModel<F> {
    type State = St<F::Header>;
    type Action = Act;

    fn init_states(&self) -> Vec<Self::State> {
        (0..self.streams.len())
            .map(|i| St { stream: i as u32, pkt: 0, pos: 0, dev: 0, snap: Snap::Header { cb: None, var_idx: 0, var_int: 0 }, status: Status::Running })
            .collect()
    }

    fn actions(&self, s: &Self::State, out: &mut Vec<Self::Action>) {
        let stream = &self.streams[s.stream as usize];
        match s.status {
            Status::Finished | Status::Violated => {}
            Status::DoneOk => {
                if (s.pkt as usize) + 1 < stream.ends.len() {
                    out.push(Act::Reset);
                } else {
                    out.push(Act::FinalEof);
                }
            }
            Status::Running => {
                let start = stream.start(s.pkt as usize);
                let frame_len = stream.ends[s.pkt as usize] - start;
                let left = stream.ends[s.pkt as usize].saturating_sub(s.pos as usize);
                let small = frame_len <= self.all_k_below;
                let ks: Vec<u32> = if small {
                    (1..=left.max(1) as u32).collect()
                } else {
                    let l = left.max(1);
                    let mut v = vec![1usize, 2, l / 2, l.saturating_sub(2), l.saturating_sub(1), l];
                    v.retain(|x| *x >= 1 && *x <= l);
                    v.sort();
                    v.dedup();
                    v.into_iter().map(|x| x as u32).collect()
                };
                let in_header = matches!(s.snap, Snap::Header { .. });
                let first: Vec<u32> = if in_header { vec![1] } else { ks.clone() };
                let ends: Vec<End> = if self.faults { vec![End::Pending, End::Eof, End::Err] } else { vec![End::Pending] };
                let dev_left = if small { u8::MAX } else { self.max_dev.saturating_sub(s.dev) };
                for e in &ends {
                    out.push(Act::Step { chunks: vec![], end: *e });
                }
                // scripts of 1..=r chunks
                let mut cur: Vec<Vec<u32>> = first.iter().map(|k| vec![*k]).collect();
                for depth in 1..=self.r {
                    for c in &cur {
                        let devs = c.iter().filter(|k| **k as usize != left).count();
                        if !small && devs as u8 > dev_left {
                            continue;
                        }
                        for e in &ends {
                            out.push(Act::Step { chunks: c.clone(), end: *e });
                        }
                    }
                    if depth < self.r {
                        let mut next = Vec::new();
                        for c in &cur {
                            for k in &ks {
                                let mut n = c.clone();
                                n.push(*k);
                                next.push(n);
                            }
                        }
                        cur = next;
                    }
                }
            }
        }
    }

    fn next_state(&self, s: &Self::State, a: Self::Action) -> Option<Self::State> {
        let stream = &self.streams[s.stream as usize];
        self.stats.transitions.fetch_add(1, Relaxed);
        match &a {
            Act::Reset => Some(St { stream: s.stream, pkt: s.pkt + 1, pos: s.pos, dev: 0, snap: Snap::Header { cb: None, var_idx: 0, var_int: 0 }, status: Status::Running }),
            Act::FinalEof => {
                // decoding once more at the end of the stream: clean end-of-input, state untouched
                let mut st: GenericPollPacketState<F::Header> = Default::default();
                let data: &[u8] = &[];
                let mut rd = ScriptedReader::new(data, vec![], RA::Eof);
                let w = noop_waker();
                let r = guard(|| {
                    let mut cx = Context::from_waker(&w);
                    let mut fut = GenericPollPacket::new(&mut st, &mut rd);
                    Pin::new(&mut fut).poll(&mut cx)
                });
                self.stats.polls.fetch_add(1, Relaxed);
                let ok = matches!(&r, Ok(Poll::Ready(Err(e))) if F::is_eof(e)) && snapshot::<F>(&st) == Snap::Header { cb: None, var_idx: 0, var_int: 0 };
                if !ok {
                    return Some(self.violate(s, &a, "final-eof", format!("decoding at the end of the stream does not report a clean end of input: {:?}", r.map(|p| p.map(|r| r.map(|x| x.0))))));
                }
                let mut n = s.clone();
                n.status = Status::Finished;
                Some(n)
            }
            Act::Step { chunks, end } => {
                let pkt = s.pkt as usize;
                let start = stream.start(pkt);
                let frame_end = stream.ends[pkt];
                let pos = s.pos as usize;
                let mut st = restore::<F>(&s.snap);
                let idx_before = match &s.snap {
                    Snap::Body { idx, .. } => *idx,
                    _ => 0,
                };
                let script: Vec<RA> = chunks.iter().map(|k| RA::Deliver(*k as usize)).collect();
                let mut rd = ScriptedReader::new(&stream.bytes[pos..], script, end_ra(*end));
                rd.frame_end = frame_end - pos.min(frame_end);
                let w = noop_waker();
                let r = guard(|| {
                    let mut cx = Context::from_waker(&w);
                    let mut fut = GenericPollPacket::new(&mut st, &mut rd);
                    Pin::new(&mut fut).poll(&mut cx)
                });
                self.stats.polls.fetch_add(1, Relaxed);
                let newpos = pos + rd.pos;
                let left_before = frame_end.saturating_sub(pos);
                let devs = chunks.iter().filter(|k| **k as usize != left_before).count() as u8;
                let r = match r {
                    Ok(r) => r,
                    Err(m) => return Some(self.violate(s, &a, "panic", format!("poll panics: {m} @ {}", last_panic_loc()))),
                };
                if let Some((cap, left)) = rd.log.over_ask {
                    return Some(self.violate(s, &a, "over-ask", format!("asked the transport for {cap} bytes while {left} bytes are left in the current frame")));
                }
                if newpos > frame_end {
                    return Some(self.violate(s, &a, "over-read", format!("consumed bytes up to offset {newpos}, the frame ends at {frame_end}")));
                }
                match r {
                    Poll::Pending => {
                        if rd.log.pendings == 0 {
                            return Some(self.violate(s, &a, "spurious-pending", "returned Pending although the transport did not".into()));
                        }
                        let snap = snapshot::<F>(&st);
                        let expect = ref_poll_state::<F>(&stream.bytes[start..], newpos - start);
                        if expect.as_ref() != Some(&snap) {
                            // Not a verdict by itself: the property is behavioural (same result as one
                            // uninterrupted read), and a refactoring may legitimately change how progress is
                            // represented. Counted and reported in the evidence; the terminal oracle decides.
                            self.stats.repr_mismatch.fetch_add(1, Relaxed);
                        }
                        if let Snap::Body { idx, len, .. } = &snap {
                            if *idx > 0 && idx < len {
                                self.stats.partial_body_states.fetch_add(1, Relaxed);
                            }
                            if idx > len {
                                return Some(self.violate(s, &a, "idx-past-buffer", format!("idx {idx} > buffer length {len}")));
                            }
                        }
                        Some(St { stream: s.stream, pkt: s.pkt, pos: newpos as u32, dev: s.dev.saturating_add(devs), snap, status: Status::Running })
                    }
                    Poll::Ready(res) => {
                        if rd.log.pendings > 0 {
                            return Some(self.violate(s, &a, "swallowed-pending", "returned Ready in a poll in which the transport answered Pending".into()));
                        }
                        // the same prefix in one uninterrupted read on a fresh state, followed by the same end
                        let fault_reached = rd.log.calls > chunks.len() && *end != End::Pending;
                        let (oracle, ototal) = self.oracle(stream, start, newpos, if fault_reached { *end } else { End::Eof });
                        match res {
                            Ok((total, buf, p)) => {
                                let mut uninit = false;
                                let body = front::take_body(buf, &rd.log.reads, idx_before, &mut uninit);
                                if uninit {
                                    return Some(self.violate(s, &a, "uninit-exposed", "returned a body buffer with bytes no read ever wrote".into()));
                                }
                                let got: Out<F> = Out::Pkt(p);
                                let hl = match mqtt_ref::dec::header(&stream.bytes[start..]) {
                                    Ok(h) => h.2,
                                    Err(_) => 0,
                                };
                                if got != oracle || ototal != Some(total) {
                                    return Some(self.violate(s, &a, "schedule-dependent-result", format!("this delivery schedule yields {} (total {total}); one uninterrupted read yields {} (total {:?})", got.short(), oracle.short(), ototal)));
                                }
                                if total != frame_end - start || newpos != frame_end {
                                    return Some(self.violate(s, &a, "wrong-total", format!("reports total {total}, consumed {} bytes, the frame has {} bytes", newpos - start, frame_end - start)));
                                }
                                if body != stream.bytes[start + hl..frame_end] {
                                    return Some(self.violate(s, &a, "wrong-body", format!("returned body {} differs from the frame's body", crate::ev::hex_short(&body))));
                                }
                                self.stats.done_ok.fetch_add(1, Relaxed);
                                Some(St { stream: s.stream, pkt: s.pkt, pos: newpos as u32, dev: 0, snap: Snap::Header { cb: None, var_idx: 0, var_int: 0 }, status: Status::DoneOk })
                            }
                            Err(e) => {
                                let got: Out<F> = if F::is_eof(&e) { Out::Incomplete } else { Out::Err(e) };
                                if got != oracle {
                                    return Some(self.violate(s, &a, "schedule-dependent-result", format!("this delivery schedule yields {}; one uninterrupted read of the same {} bytes yields {}", got.short(), newpos - start, oracle.short())));
                                }
                                self.stats.finished_err.fetch_add(1, Relaxed);
                                Some(St { stream: s.stream, pkt: s.pkt, pos: newpos as u32, dev: 0, snap: Snap::Header { cb: None, var_idx: 0, var_int: 0 }, status: Status::Finished })
                            }
                        }
                    }
                }
            }
        }
    }

    fn properties(&self) -> Vec<Property<Self>> {
        vec![
            Property::always("every transition satisfies the poll-decoder invariants", |_, s: &St<F::Header>| s.status != Status::Violated),
            // never satisfied: keeps the checker exploring the whole space even after a counterexample
            Property::sometimes("unreachable marker", |_, _| false),
        ]
    }
}

pub struct E1Result {
    pub unique_states: u64,
    pub generated_states: u64,
    pub max_depth: u64,
    pub counterexample: Option<String>,
}

pub fn explore<F: Fam>(model: PollModel<F>, threads: usize) -> E1Result {
    let checker = model.checker().threads(threads).finish_when(HasDiscoveries::All).spawn_bfs().join();
    let ce = checker.discovery("every transition satisfies the poll-decoder invariants").map(|p| {
        let acts: Vec<String> = p.into_actions().iter().map(|a| format!("{:?}", a)).collect();
        acts.join(" ; ")
    });
    E1Result { unique_states: checker.unique_state_count() as u64, generated_states: checker.state_count() as u64, max_depth: checker.max_depth() as u64, counterexample: ce }
}
