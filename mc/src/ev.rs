//! Run context: counters, samples, violations; serialised by `main` into the per-profile part file
//! that the `check` driver merges into /verif/evidence/<id>.json.

use serde_json::{json, Map, Value};
use std::collections::BTreeMap;
use std::sync::atomic::{AtomicU64, Ordering::Relaxed};
use std::sync::Mutex;

#[derive(Clone, Copy, Debug, PartialEq, Eq)]
pub enum Tier {
    Quick,
    Thorough,
}

#[derive(Clone, Debug)]
pub struct Violation {
    /// identifies the failing input class / call site (what known_findings.json is keyed on)
    pub key: String,
    pub what: String,
    /// everything `mqtt-mc replay` needs to re-execute exactly this case
    pub case: Value,
}

pub struct Ctx {
    pub prop: String,
    pub tier: Tier,
    pub seed: u64,
    pub profile: String,
    /// executions of the real code whose result was compared with the oracle
    pub evaluations: AtomicU64,
    /// distinct initial inputs / explicit states
    pub states: AtomicU64,
    /// subject calls executed / explicit-state transitions
    pub transitions: AtomicU64,
    /// completed real executions whose observable result was compared with the reference model
    pub traces: AtomicU64,
    /// distinct non-trivial cases (rule stated per check)
    pub nontrivial: AtomicU64,
    pub rule: Mutex<String>,
    pub samples: Mutex<Vec<Value>>,
    pub violations: Mutex<BTreeMap<String, (Violation, u64)>>,
    pub violation_total: AtomicU64,
    pub counters: Mutex<BTreeMap<String, u64>>,
    pub info: Mutex<Map<String, Value>>,
    pub exhaustive: Mutex<bool>,
    pub assumptions: Mutex<Vec<String>>,
}

impl Ctx {
    pub fn new(prop: &str, tier: Tier, seed: u64, profile: &str) -> Ctx {
        Ctx {
            prop: prop.to_string(),
            tier,
            seed,
            profile: profile.to_string(),
            evaluations: AtomicU64::new(0),
            states: AtomicU64::new(0),
            transitions: AtomicU64::new(0),
            traces: AtomicU64::new(0),
            nontrivial: AtomicU64::new(0),
            rule: Mutex::new(String::new()),
            samples: Mutex::new(Vec::new()),
            violations: Mutex::new(BTreeMap::new()),
            violation_total: AtomicU64::new(0),
            counters: Mutex::new(BTreeMap::new()),
            info: Mutex::new(Map::new()),
            exhaustive: Mutex::new(true),
            assumptions: Mutex::new(Vec::new()),
        }
    }
    pub fn thorough(&self) -> bool {
        self.tier == Tier::Thorough
    }
    pub fn eval(&self, n: u64) {
        self.evaluations.fetch_add(n, Relaxed);
    }
    pub fn state(&self, n: u64) {
        self.states.fetch_add(n, Relaxed);
    }
    pub fn trans(&self, n: u64) {
        self.transitions.fetch_add(n, Relaxed);
    }
    pub fn trace(&self, n: u64) {
        self.traces.fetch_add(n, Relaxed);
    }
    pub fn nontriv(&self, n: u64) {
        self.nontrivial.fetch_add(n, Relaxed);
    }
    pub fn count(&self, name: &str, n: u64) {
        *self.counters.lock().unwrap().entry(name.to_string()).or_insert(0) += n;
    }
    /// like `count`, but sets the value (a universe that is built more than once is counted once)
    pub fn count_set(&self, name: &str, n: u64) {
        self.counters.lock().unwrap().insert(name.to_string(), n);
    }
    pub fn set_rule(&self, s: &str) {
        let mut r = self.rule.lock().unwrap();
        if !r.is_empty() {
            r.push_str(" | ");
        }
        r.push_str(s);
    }
    pub fn info(&self, k: &str, v: Value) {
        self.info.lock().unwrap().insert(k.to_string(), v);
    }
    pub fn assume(&self, s: &str) {
        self.assumptions.lock().unwrap().push(s.to_string());
    }
    pub fn capped(&self, why: &str) {
        *self.exhaustive.lock().unwrap() = false;
        self.info.lock().unwrap().insert(format!("cap:{}", why), json!(true));
    }
    /// keep at most `max` samples per run (first come)
    pub fn sample(&self, v: Value) {
        let mut s = self.samples.lock().unwrap();
        if s.len() < 12 {
            s.push(v);
        }
    }
    pub fn want_sample(&self) -> bool {
        self.samples.lock().unwrap().len() < 12
    }
    pub fn violation(&self, key: String, what: String, case: Value) {
        // a decoded value may hold a String that is not UTF-8 (that is what some checks look for);
        // whatever is written to the part file must be valid UTF-8
        let key = String::from_utf8_lossy(key.as_bytes()).into_owned();
        let what = String::from_utf8_lossy(what.as_bytes()).into_owned();
        self.violation_total.fetch_add(1, Relaxed);
        let mut v = self.violations.lock().unwrap();
        let n = v.len();
        match v.get_mut(&key) {
            Some(e) => e.1 += 1,
            None => {
                if n < 40 {
                    v.insert(key.clone(), (Violation { key, what, case }, 1));
                }
            }
        }
    }
    pub fn to_json(&self, wall_s: f64) -> Value {
        let viols: Vec<Value> = self
            .violations
            .lock()
            .unwrap()
            .values()
            .map(|(v, n)| json!({"key": v.key, "what": v.what, "case": v.case, "count": n}))
            .collect();
        json!({
            "property_id": self.prop,
            "tier": if self.tier == Tier::Quick { "quick" } else { "thorough" },
            "seed": self.seed,
            "profile": self.profile,
            "evaluations": self.evaluations.load(Relaxed),
            "states": self.states.load(Relaxed),
            "transitions": self.transitions.load(Relaxed),
            "traces_validated_against_impl": self.traces.load(Relaxed),
            "distinct_nontrivial": self.nontrivial.load(Relaxed),
            "rule": *self.rule.lock().unwrap(),
            "samples": *self.samples.lock().unwrap(),
            "counters": *self.counters.lock().unwrap(),
            "info": Value::Object(self.info.lock().unwrap().clone()),
            "exhaustive": *self.exhaustive.lock().unwrap(),
            "assumptions": *self.assumptions.lock().unwrap(),
            "wall_s": wall_s,
            "violations": self.violation_total.load(Relaxed),
            "violation_list": viols,
        })
    }
}

pub fn hex(b: &[u8]) -> String {
    let mut s = String::with_capacity(b.len() * 2);
    for x in b {
        s.push_str(&format!("{:02x}", x));
    }
    s
}

pub fn hex_short(b: &[u8]) -> String {
    if b.len() <= 64 {
        hex(b)
    } else {
        format!("{}..({} bytes)..{}", hex(&b[..24]), b.len(), hex(&b[b.len() - 8..]))
    }
}

pub fn unhex(s: &str) -> Vec<u8> {
    (0..s.len() / 2).map(|i| u8::from_str_radix(&s[2 * i..2 * i + 2], 16).unwrap()).collect()
}

/// Run `f`, turning a panic into `Err(message)`.
pub fn guard<T>(f: impl FnOnce() -> T) -> Result<T, String> {
    match std::panic::catch_unwind(std::panic::AssertUnwindSafe(f)) {
        Ok(v) => Ok(v),
        Err(p) => {
            let msg = if let Some(s) = p.downcast_ref::<&str>() {
                s.to_string()
            } else if let Some(s) = p.downcast_ref::<String>() {
                s.clone()
            } else {
                "panic".to_string()
            };
            Err(msg)
        }
    }
}

thread_local! {
    pub static LAST_PANIC_LOC: std::cell::RefCell<String> = std::cell::RefCell::new(String::new());
}

/// location of the most recent panic on ANY thread (for panics that escape a worker thread)
pub static LAST_PANIC_ANYWHERE: Mutex<String> = Mutex::new(String::new());

/// Silence the default panic output (panics are caught and recorded as violations) but keep the location.
pub fn install_quiet_panic_hook() {
    std::panic::set_hook(Box::new(|info| {
        let loc = info.location().map(|l| format!("{}:{}", l.file(), l.line())).unwrap_or_default();
        if let Ok(mut g) = LAST_PANIC_ANYWHERE.try_lock() {
            *g = loc.clone();
        }
        LAST_PANIC_LOC.with(|c| *c.borrow_mut() = loc);
    }));
}

pub fn last_panic_loc() -> String {
    LAST_PANIC_LOC.with(|c| c.borrow().clone())
}
