#!/usr/bin/env python3
"""Development tool: run checks against property-breaking patches WITHOUT touching /repo.
A scratch copy of the harness is pointed at a scratch worktree of /repo under /tmp/mm.
usage: matrix.py <patch>[,<patch>...] <ID>[,<ID>...] [--tier quick]
Prints, per patch, which checks report a violation that is not a listed known finding."""
import json, os, re, subprocess, sys, shutil
V = "/verif"; S = os.environ.get("MATRIX_SCRATCH", "/tmp/mm")
PROFS = tuple(os.environ.get("MATRIX_PROFILES", "checked,fast").split(","))
def sh(cmd, **kw): return subprocess.run(cmd, shell=True, text=True, errors="replace", stdout=subprocess.PIPE, stderr=subprocess.STDOUT, **kw)
def setup():
    os.makedirs(S, exist_ok=True)
    if not os.path.exists(f"{S}/repo"):
        print(sh(f"git -C /repo worktree add --detach {S}/repo HEAD").stdout)
    sh(f"git -C {S}/repo checkout -q --detach $(git -C /repo rev-parse HEAD) && git -C {S}/repo checkout -q -- .")
    sh(f"rsync -a --delete {V}/mc/ {S}/mc/ --exclude target && rsync -a --delete {V}/refmodel/ {S}/refmodel/")
    t = open(f"{S}/mc/Cargo.toml").read().replace('path = "/repo"', f'path = "{S}/repo"')
    open(f"{S}/mc/Cargo.toml", "w").write(t)
def known():
    try: return [k for k in json.load(open(f"{V}/known_findings.json"))["findings"] if k["status"] == "known"]
    except Exception: return []
def km(p, k): return re.match("^" + ".*".join(re.escape(x) for x in p.split("*")) + "$", k) is not None
def run(ids, tier):
    res = {}
    for prof in PROFS:
        b = sh(f"cd {S}/mc && cargo build --offline --profile {prof}")
        if b.returncode != 0:
            return {"BUILD": b.stdout[-1500:]}
    for cid in ids:
        hit = []
        for prof in PROFS:
            out = f"{S}/{cid}.{prof}.json"
            r = sh(f"cd {S} && {S}/target/{prof}/mqtt-mc {cid} --tier {tier} --profile {prof} --out {out}")
            if r.returncode != 0:
                hit.append(f"{prof}:CRASH({r.returncode})")
                continue
            j = json.load(open(out, encoding="utf-8", errors="replace"))
            ks = [v["key"] for v in j["violation_list"] if not any(km(k["key"], v["key"]) and k["property"] == cid for k in known())]
            if ks: hit.append(f"{prof}:{len(ks)}:{ks[0][:70]}")
            if j["info"].get("machinery_error"): hit.append(f"{prof}:MACHINERY")
        res[cid] = hit
    return res
def main():
    a = sys.argv[1:]
    tier = "quick"
    if "--tier" in a:
        i = a.index("--tier"); tier = a[i+1]; del a[i:i+2]
    patches = a[0].split(","); ids = a[1].split(",")
    setup()
    for p in patches:
        sh(f"git -C {S}/repo checkout -q -- .")
        if p != "none":
            r = sh(f"git -C {S}/repo apply {p}")
            if r.returncode != 0:
                print(p, "PATCH FAILS", r.stdout); continue
        res = run(ids, tier)
        caught = [c for c, h in res.items() if h]
        print(f"{os.path.basename(os.path.dirname(p))}/{os.path.basename(p)}: caught_by={caught}")
        for c, h in res.items():
            if h: print("     ", c, h)
        sys.stdout.flush()
    sh(f"git -C {S}/repo checkout -q -- .")
main()
