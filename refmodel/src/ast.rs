//! Neutral packet values.

#[derive(Clone, Copy, Debug, PartialEq, Eq, Hash, PartialOrd, Ord)]
pub enum Family {
    /// MQTT 3.1 (level 3, "MQIsdp") and 3.1.1 (level 4, "MQTT")
    V3,
    /// MQTT 5.0 (level 5, "MQTT")
    V5,
}

/// Packet type = high nibble of the control byte.
pub mod ptype {
    pub const CONNECT: u8 = 1;
    pub const CONNACK: u8 = 2;
    pub const PUBLISH: u8 = 3;
    pub const PUBACK: u8 = 4;
    pub const PUBREC: u8 = 5;
    pub const PUBREL: u8 = 6;
    pub const PUBCOMP: u8 = 7;
    pub const SUBSCRIBE: u8 = 8;
    pub const SUBACK: u8 = 9;
    pub const UNSUBSCRIBE: u8 = 10;
    pub const UNSUBACK: u8 = 11;
    pub const PINGREQ: u8 = 12;
    pub const PINGRESP: u8 = 13;
    pub const DISCONNECT: u8 = 14;
    pub const AUTH: u8 = 15;
    /// pseudo owner of a property set: the will properties inside CONNECT
    pub const WILL: u8 = 0;

    pub fn name(t: u8) -> &'static str {
        match t {
            WILL => "WILL",
            CONNECT => "CONNECT",
            CONNACK => "CONNACK",
            PUBLISH => "PUBLISH",
            PUBACK => "PUBACK",
            PUBREC => "PUBREC",
            PUBREL => "PUBREL",
            PUBCOMP => "PUBCOMP",
            SUBSCRIBE => "SUBSCRIBE",
            SUBACK => "SUBACK",
            UNSUBSCRIBE => "UNSUBSCRIBE",
            UNSUBACK => "UNSUBACK",
            PINGREQ => "PINGREQ",
            PINGRESP => "PINGRESP",
            DISCONNECT => "DISCONNECT",
            AUTH => "AUTH",
            _ => "?",
        }
    }
}

#[derive(Clone, Debug, PartialEq, Eq, Hash, PartialOrd, Ord)]
pub enum PVal {
    Byte(u8),
    U16(u16),
    U32(u32),
    VarInt(u32),
    Str(String),
    Bin(Vec<u8>),
    Pair(String, String),
}

#[derive(Clone, Debug, PartialEq, Eq, Hash, PartialOrd, Ord)]
pub struct Prop {
    pub id: u8,
    pub val: PVal,
}

/// Properties in wire order.
pub type Props = Vec<Prop>;

#[derive(Clone, Debug, PartialEq, Eq, Hash)]
pub struct Will {
    pub qos: u8,
    pub retain: bool,
    pub props: Props,
    pub topic: String,
    pub payload: Vec<u8>,
}

#[derive(Clone, Debug, PartialEq, Eq, Hash)]
pub enum Ast {
    Connect {
        /// protocol level 3 ("MQIsdp"), 4 ("MQTT") or 5 ("MQTT")
        level: u8,
        clean: bool,
        keep_alive: u16,
        props: Props,
        client_id: String,
        will: Option<Will>,
        username: Option<String>,
        password: Option<Vec<u8>>,
    },
    Connack {
        session_present: bool,
        code: u8,
        props: Props,
    },
    Publish {
        dup: bool,
        qos: u8,
        retain: bool,
        topic: String,
        pid: Option<u16>,
        props: Props,
        payload: Vec<u8>,
    },
    /// PUBACK / PUBREC / PUBREL / PUBCOMP (and v3 UNSUBACK, which is only a packet identifier)
    Ack {
        typ: u8,
        pid: u16,
        code: u8,
        props: Props,
    },
    Subscribe {
        pid: u16,
        props: Props,
        /// (filter, options byte); for v3 the byte is the requested QoS
        topics: Vec<(String, u8)>,
    },
    Suback {
        pid: u16,
        props: Props,
        codes: Vec<u8>,
    },
    Unsubscribe {
        pid: u16,
        props: Props,
        topics: Vec<String>,
    },
    /// v5 UNSUBACK
    Unsuback {
        pid: u16,
        props: Props,
        codes: Vec<u8>,
    },
    Pingreq,
    Pingresp,
    Disconnect {
        code: u8,
        props: Props,
    },
    Auth {
        code: u8,
        props: Props,
    },
}

impl Ast {
    pub fn ptype(&self) -> u8 {
        match self {
            Ast::Connect { .. } => ptype::CONNECT,
            Ast::Connack { .. } => ptype::CONNACK,
            Ast::Publish { .. } => ptype::PUBLISH,
            Ast::Ack { typ, .. } => *typ,
            Ast::Subscribe { .. } => ptype::SUBSCRIBE,
            Ast::Suback { .. } => ptype::SUBACK,
            Ast::Unsubscribe { .. } => ptype::UNSUBSCRIBE,
            Ast::Unsuback { .. } => ptype::UNSUBACK,
            Ast::Pingreq => ptype::PINGREQ,
            Ast::Pingresp => ptype::PINGRESP,
            Ast::Disconnect { .. } => ptype::DISCONNECT,
            Ast::Auth { .. } => ptype::AUTH,
        }
    }

    /// Same packet with every property set put into a canonical order: all non-user
    /// properties sorted by identifier, then the user properties in their original
    /// relative order (the only order that carries meaning, MQTT 5.0 §2.2.2.2).
    pub fn canon(&self) -> Ast {
        let mut a = self.clone();
        fn c(p: &mut Props) {
            let mut non: Vec<Prop> = p.iter().filter(|x| x.id != 0x26).cloned().collect();
            non.sort();
            let user: Vec<Prop> = p.iter().filter(|x| x.id == 0x26).cloned().collect();
            non.extend(user);
            *p = non;
        }
        match &mut a {
            Ast::Connect { props, will, .. } => {
                c(props);
                if let Some(w) = will {
                    c(&mut w.props)
                }
            }
            Ast::Connack { props, .. }
            | Ast::Publish { props, .. }
            | Ast::Ack { props, .. }
            | Ast::Subscribe { props, .. }
            | Ast::Suback { props, .. }
            | Ast::Unsubscribe { props, .. }
            | Ast::Unsuback { props, .. }
            | Ast::Disconnect { props, .. }
            | Ast::Auth { props, .. } => c(props),
            Ast::Pingreq | Ast::Pingresp => {}
        }
        a
    }
}
