pub mod bytes;
pub mod faults;
pub mod grammar;
pub mod history;
pub mod nums;
pub mod pollmc;
pub mod strings;
pub mod sweeps;
pub mod values;

use crate::ev::Ctx;

pub const ALL: &[&str] = &[
    "C01", "C02", "C03", "C04", "C05", "C06", "C07", "C08", "C09", "C10", "C11", "C12", "C13", "C14", "C15", "C16", "C17", "C18",
    "C19", "C20",
];

pub fn run(id: &str, ctx: &Ctx) -> bool {
    match id {
        "C01" => values::c01(ctx),
        "C02" => values::c02(ctx),
        "C03" => bytes::c03(ctx),
        "C04" => grammar::c04(ctx),
        "C05" => pollmc::c05(ctx),
        "C06" => bytes::c06(ctx),
        "C07" => values::c07(ctx),
        "C08" => pollmc::c08(ctx),
        "C09" => values::c09(ctx),
        "C10" => values::c10(ctx),
        "C11" => bytes::c11(ctx),
        "C12" => bytes::c12(ctx),
        "C13" => faults::c13(ctx),
        "C14" => faults::c14(ctx),
        "C15" => nums::c15(ctx),
        "C16" => strings::c16(ctx),
        "C17" => strings::c17(ctx),
        "C18" => strings::c18(ctx),
        "C19" => nums::c19(ctx),
        "miri-leg" => bytes::miri_leg(ctx),
        "C20" => grammar::c20(ctx),
        _ => return false,
    }
    true
}
