//! `mqtt-mc replay <file>`: re-execute exactly one recorded case, without any explorer around it.
//! Prints the violations it reproduces; exit status 1 if any, 0 if none.

use crate::astjson;
use crate::checks::{bytes, faults, grammar, nums, pollmc, strings, values};
use crate::e1::Stream;
use crate::ev::{unhex, Ctx, Tier};
use crate::fam::{Fam, V3, V5};
use mqtt_ref::dec;
use serde_json::Value;
use std::sync::atomic::AtomicU64;

fn fam_of(case: &Value) -> &str {
    case["family"].as_str().or(case["decoder"].as_str()).unwrap_or("v5")
}

fn value_case<F: Fam>(ctx: &Ctx, prop: &str, case: &Value) {
    let ast = astjson::from_json(&case["ast"]);
    match prop {
        "C01" => values::c01_item::<F>(ctx, &ast),
        "C02" => values::c02_item::<F>(ctx, 0, &ast, &AtomicU64::new(0)),
        "C07" => {
            let sfx = values::suffix_set(F::FAMILY);
            values::c07_item::<F>(ctx, &ast, Some(&sfx))
        }
        "C09" => values::c09_item::<F>(ctx, &ast, true),
        "C10" => values::c10_item_pub::<F>(ctx, &ast),
        "C14" => faults::c14_one::<F>(ctx, &ast),
        _ => {}
    }
}

fn bytes_case<F: Fam>(ctx: &Ctx, prop: &str, b: &[u8]) {
    let sw = bytes::Sweep { ctx, nontrivial: AtomicU64::new(0), accepted: AtomicU64::new(0) };
    match prop {
        "C03" => {
            bytes::c03_light::<F>(ctx, &sw, b);
            bytes::c03_heavy::<F>(ctx, b);
        }
        "C04" => {
            let g = grammar::G { accept: AtomicU64::new(0), lenient: AtomicU64::new(0), reject: AtomicU64::new(0), out_of_domain: AtomicU64::new(0), not_frame: AtomicU64::new(0) };
            grammar::c04_frame::<F>(ctx, &g, b);
        }
        "C06" => bytes::c06_input::<F>(ctx, &sw, b),
        "C11" => bytes::c11_input::<F>(ctx, &sw, b),
        "C12" => {
            bytes::c12_input::<F>(ctx, &sw, b);
            let (op, _, _) = crate::front::poll_slice::<F>(b);
            if op.is_pkt() {
                if let dec::Verdict::Reject(v) = dec::decode(F::FAMILY, b) {
                    ctx.violation(format!("C12:{}:accepted-but-ill-typed", F::NAME), format!("accepted although the reference decoder finds {:?}", v), bytes::case_bytes::<F>(b));
                }
            }
        }
        "C20" => {
            if let dec::Verdict::Reject(v) = dec::decode(F::FAMILY, b) {
                let m = mqtt_ref::mutate::Mal { kind: "replayed", site: String::new(), bytes: b.to_vec(), expect: v };
                grammar::c20_one::<F>(ctx, &m);
            }
        }
        "C13" => faults::c13_replay(ctx, F::FAMILY == mqtt_ref::Family::V3, b),
        _ => {}
    }
}

pub fn run(path: &str) -> i32 {
    let rec: Value = serde_json::from_str(&std::fs::read_to_string(path).expect("read replay file")).expect("parse replay file");
    let prop = rec["property"].as_str().unwrap_or("").to_string();
    let case = &rec["case"];
    let tier = if rec["tier"].as_str() == Some("thorough") { Tier::Thorough } else { Tier::Quick };
    let ctx = Ctx::new(&prop, tier, 0, "replay");
    let kind = case["kind"].as_str().unwrap_or("");
    let v3 = fam_of(case) == "v3";
    match kind {
        "value" | "value-schedule" | "value-cut" | "value-suffix" | "value-sink" | "value-write" | "write-fault" => {
            if v3 {
                value_case::<V3>(&ctx, &prop, case)
            } else {
                value_case::<V5>(&ctx, &prop, case)
            }
        }
        "read-fault" if case.get("ast").is_some() => {
            if v3 {
                value_case::<V3>(&ctx, &prop, case)
            } else {
                value_case::<V5>(&ctx, &prop, case)
            }
        }
        "bytes" | "connect-cross" => {
            let b = unhex(case["bytes"].as_str().unwrap());
            if v3 {
                bytes_case::<V3>(&ctx, &prop, &b)
            } else {
                bytes_case::<V5>(&ctx, &prop, &b)
            }
        }
        "read-fault" => {
            let b = unhex(case["bytes"].as_str().unwrap());
            if v3 {
                faults::c14_bytes::<V3>(&ctx, &b)
            } else {
                faults::c14_bytes::<V5>(&ctx, &b)
            }
        }
        "filter" => {
            let s = case["s"].as_str().unwrap();
            if let Some(w) = strings::c16_one(s, true) {
                ctx.violation("C16:replay".into(), w, case.clone());
            }
        }
        "filter-accessors" => {
            let s = case["s"].as_str().unwrap();
            if let Some(w) = strings::c17_one(s) {
                ctx.violation("C17:replay".into(), w, case.clone());
            }
        }
        "filter-pair" => {
            if let Some(w) = strings::c17_pair_str(case["a"].as_str().unwrap(), case["b"].as_str().unwrap()) {
                ctx.violation("C17:replay".into(), w, case.clone());
            }
        }
        "topic-name" => {
            let s = case["s"].as_str().unwrap();
            if let Some(w) = strings::c18_one(s, true) {
                ctx.violation("C18:replay".into(), w, case.clone());
            }
        }
        "pid" => {
            if let Some(w) = nums::c19_case(case["p"].as_u64().unwrap() as u16, case["u"].as_u64().unwrap() as u16) {
                ctx.violation("C19:replay".into(), w, case.clone());
            }
        }
        "pid-try-from" | "pid-default" => nums::c19_try_from(&ctx),
        "varint-value" => {
            if let Some(w) = nums::c15_value(case["v"].as_u64().unwrap() as u32) {
                ctx.violation("C15:replay".into(), w, case.clone());
            }
        }
        "varint-poll" => {
            if let Some(w) = nums::c15_poll_value(case["v"].as_u64().unwrap() as u32) {
                ctx.violation("C15:replay".into(), w, case.clone());
            }
        }
        "varint-reject" => {
            if let Some(w) = nums::c15_reject(case["v"].as_u64().unwrap()) {
                ctx.violation("C15:replay".into(), w, case.clone());
            }
        }
        "varint-pattern" => {
            if let Some(w) = nums::c15_pattern(&unhex(case["bytes"].as_str().unwrap())) {
                ctx.violation("C15:replay".into(), w, case.clone());
            }
        }
        "e1-step" | "poll-chunked" => {
            // re-explore the one stream the step belongs to
            let (bytes, ends): (Vec<u8>, Vec<usize>) = if kind == "e1-step" {
                (unhex(case["stream"].as_str().unwrap()), case["ends"].as_array().unwrap().iter().map(|x| x.as_u64().unwrap() as usize).collect())
            } else {
                let b = unhex(case["bytes"].as_str().unwrap());
                let mut s = b.clone();
                s.extend_from_slice(&[0xD0, 0x00, 0xFF]);
                (s, vec![b.len()])
            };
            let stream = Stream { bytes: bytes.clone(), ends: ends.clone(), label: "replay".into() };
            let single = ends.len() == 1;
            let p: &'static str = if prop == "C08" { "C08" } else { "C05" };
            if v3 {
                pollmc::run_model_pub::<V3>(&ctx, p, "replay", vec![stream], 2, if single { 40 } else { 0 }, 3, single);
                if single {
                    pollmc::e2_pub::<V3>(&ctx, p, &[bytes[..ends[0]].to_vec()]);
                }
            } else {
                pollmc::run_model_pub::<V5>(&ctx, p, "replay", vec![stream], 2, if single { 40 } else { 0 }, 3, single);
                if single {
                    pollmc::e2_pub::<V5>(&ctx, p, &[bytes[..ends[0]].to_vec()]);
                }
            }
        }
        "sequence" => {
            let stream = unhex(case["stream"].as_str().unwrap());
            let ends: Vec<usize> = case["ends"].as_array().unwrap().iter().map(|x| x.as_u64().unwrap() as usize).collect();
            if v3 {
                pollmc::c08_stream::<V3>(&ctx, &stream, &ends)
            } else {
                pollmc::c08_stream::<V5>(&ctx, &stream, &ends)
            }
        }
        "sub-decoder" => {
            let b = unhex(case["bytes"].as_str().unwrap());
            let hd = case["hd"].as_u64().unwrap() as u8;
            if v3 {
                bytes::c03_sub::<V3>(&ctx, &b, hd)
            } else {
                bytes::c03_sub::<V5>(&ctx, &b, hd)
            }
        }
        "history" | "encode-history" => {
            // history dependence needs the history: re-run the whole leg
            let p: &'static str = match prop.as_str() { "C01" => "C01", "C03" => "C03", "C08" => "C08", "C09" => "C09", _ => "C11" };
            if kind == "history" {
                if v3 { crate::checks::history::decode_history::<V3>(&ctx, p) } else { crate::checks::history::decode_history::<V5>(&ctx, p) }
            } else if v3 {
                crate::checks::history::encode_history::<V3>(&ctx, p)
            } else {
                crate::checks::history::encode_history::<V5>(&ctx, p)
            }
        }
        "oversize" => values::c02_oversize_pub(&ctx),
        "conversion" => faults::c14_conversions_pub(&ctx),
        "protocol-new" => faults::c13_protocol_new(&ctx, &unhex(case["name"].as_str().unwrap()), case["level"].as_u64().unwrap() as u8),
        other => {
            eprintln!("unknown case kind {other}");
            return 2;
        }
    }
    let v = ctx.violations.lock().unwrap();
    for (k, (viol, n)) in v.iter() {
        println!("reproduced {k} ({n}x): {}", viol.what);
    }
    if v.is_empty() {
        println!("not reproduced: the recorded case passes on this tree");
        0
    } else {
        1
    }
}
