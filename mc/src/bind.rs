//! Binding between the neutral AST of the reference model and the crate's types, BY VARIANT
//! NAME: every number below is copied from the OASIS specifications, never obtained with
//! `as u8` from the crate (the crate's numbering is what C10 tests).

use bytes::Bytes;
use mqtt_proto::{v3, v5, Pid, Protocol, QoS, QosPid, TopicFilter, TopicName};
use mqtt_ref::ast::ptype;
use mqtt_ref::{Ast, PVal, Props, Will};
use std::convert::TryFrom;
use std::sync::Arc;

pub fn qos(n: u8) -> Option<QoS> {
    Some(match n {
        0 => QoS::Level0,
        1 => QoS::Level1,
        2 => QoS::Level2,
        _ => return None,
    })
}

fn qos_pid(q: u8, pid: Option<u16>) -> Option<QosPid> {
    Some(match (q, pid) {
        (0, None) => QosPid::Level0,
        (1, Some(p)) => QosPid::Level1(Pid::try_from(p).ok()?),
        (2, Some(p)) => QosPid::Level2(Pid::try_from(p).ok()?),
        _ => return None,
    })
}

pub fn protocol(level: u8) -> Option<Protocol> {
    Some(match level {
        3 => Protocol::V310,
        4 => Protocol::V311,
        5 => Protocol::V500,
        _ => return None,
    })
}

fn arc(s: &str) -> Arc<String> {
    Arc::new(s.to_string())
}

// ---------------------------------------------------------------------------------------------
// v3

pub fn v3_connack_code(n: u8) -> Option<v3::ConnectReturnCode> {
    use v3::ConnectReturnCode::*;
    Some(match n {
        0 => Accepted,
        1 => UnacceptableProtocolVersion,
        2 => IdentifierRejected,
        3 => ServerUnavailable,
        4 => BadUserNameOrPassword,
        5 => NotAuthorized,
        _ => return None,
    })
}

pub fn v3_suback_code(n: u8) -> Option<v3::SubscribeReturnCode> {
    use v3::SubscribeReturnCode::*;
    Some(match n {
        0 => MaxLevel0,
        1 => MaxLevel1,
        2 => MaxLevel2,
        0x80 => Failure,
        _ => return None,
    })
}

pub fn v3_from_ast(a: &Ast) -> Option<v3::Packet> {
    use v3::Packet as P;
    Some(match a {
        Ast::Connect { level, clean, keep_alive, props, client_id, will, username, password } => {
            if !props.is_empty() || *level == 5 {
                return None;
            }
            let last_will = match will {
                None => None,
                Some(Will { qos: q, retain, props, topic, payload }) => {
                    if !props.is_empty() {
                        return None;
                    }
                    Some(v3::LastWill {
                        qos: qos(*q)?,
                        retain: *retain,
                        topic_name: TopicName::try_from(topic.clone()).ok()?,
                        message: Bytes::from(payload.clone()),
                    })
                }
            };
            P::Connect(v3::Connect {
                protocol: protocol(*level)?,
                clean_session: *clean,
                keep_alive: *keep_alive,
                client_id: arc(client_id),
                last_will,
                username: username.as_deref().map(arc),
                password: password.clone().map(Bytes::from),
            })
        }
        Ast::Connack { session_present, code, props } => {
            if !props.is_empty() {
                return None;
            }
            P::Connack(v3::Connack { session_present: *session_present, code: v3_connack_code(*code)? })
        }
        Ast::Publish { dup, qos: q, retain, topic, pid, props, payload } => {
            if !props.is_empty() {
                return None;
            }
            P::Publish(v3::Publish {
                dup: *dup,
                retain: *retain,
                qos_pid: qos_pid(*q, *pid)?,
                topic_name: TopicName::try_from(topic.clone()).ok()?,
                payload: Bytes::from(payload.clone()),
            })
        }
        Ast::Ack { typ, pid, code, props } => {
            if *code != 0 || !props.is_empty() {
                return None;
            }
            let pid = Pid::try_from(*pid).ok()?;
            match *typ {
                ptype::PUBACK => P::Puback(pid),
                ptype::PUBREC => P::Pubrec(pid),
                ptype::PUBREL => P::Pubrel(pid),
                ptype::PUBCOMP => P::Pubcomp(pid),
                ptype::UNSUBACK => P::Unsuback(pid),
                _ => return None,
            }
        }
        Ast::Subscribe { pid, props, topics } => {
            if !props.is_empty() {
                return None;
            }
            let mut t = Vec::new();
            for (f, o) in topics {
                t.push((TopicFilter::try_from(f.clone()).ok()?, qos(*o)?));
            }
            P::Subscribe(v3::Subscribe { pid: Pid::try_from(*pid).ok()?, topics: t })
        }
        Ast::Suback { pid, props, codes } => {
            if !props.is_empty() {
                return None;
            }
            let mut t = Vec::new();
            for c in codes {
                t.push(v3_suback_code(*c)?);
            }
            P::Suback(v3::Suback { pid: Pid::try_from(*pid).ok()?, topics: t })
        }
        Ast::Unsubscribe { pid, props, topics } => {
            if !props.is_empty() {
                return None;
            }
            let mut t = Vec::new();
            for f in topics {
                t.push(TopicFilter::try_from(f.clone()).ok()?);
            }
            P::Unsubscribe(v3::Unsubscribe { pid: Pid::try_from(*pid).ok()?, topics: t })
        }
        Ast::Unsuback { .. } | Ast::Auth { .. } => return None,
        Ast::Pingreq => P::Pingreq,
        Ast::Pingresp => P::Pingresp,
        Ast::Disconnect { code, props } => {
            if *code != 0 || !props.is_empty() {
                return None;
            }
            P::Disconnect
        }
    })
}

// ---------------------------------------------------------------------------------------------
// v5 tables (MQTT 5.0 §2.4, §3.2.2.2, §3.4.2.1 …), by variant name

pub fn v5_connect_reason(n: u8) -> Option<v5::ConnectReasonCode> {
    use v5::ConnectReasonCode::*;
    Some(match n {
        0x00 => Success,
        0x80 => UnspecifiedError,
        0x81 => MalformedPacket,
        0x82 => ProtocolError,
        0x83 => ImplementationSpecificError,
        0x84 => UnsupportedProtocolVersion,
        0x85 => ClientIdentifierNotValid,
        0x86 => BadUserNameOrPassword,
        0x87 => NotAuthorized,
        0x88 => ServerUnavailable,
        0x89 => ServerBusy,
        0x8A => Banned,
        0x8C => BadAuthMethod,
        0x90 => TopicNameInvalid,
        0x95 => PacketTooLarge,
        0x97 => QuotaExceeded,
        0x99 => PayloadFormatInvalid,
        0x9A => RetainNotSupported,
        0x9B => QoSNotSupported,
        0x9C => UseAnotherServer,
        0x9D => ServerMoved,
        0x9F => ConnectionRateExceeded,
        _ => return None,
    })
}

pub fn v5_disconnect_reason(n: u8) -> Option<v5::DisconnectReasonCode> {
    use v5::DisconnectReasonCode::*;
    Some(match n {
        0x00 => NormalDisconnect,
        0x04 => DisconnectWithWillMessage,
        0x80 => UnspecifiedError,
        0x81 => MalformedPacket,
        0x82 => ProtocolError,
        0x83 => ImplementationSpecificError,
        0x87 => NotAuthorized,
        0x89 => ServerBusy,
        0x8B => ServerShuttingDown,
        0x8D => KeepAliveTimeout,
        0x8E => SessionTakenOver,
        0x8F => TopicFilterInvalid,
        0x90 => TopicNameInvalid,
        0x93 => ReceiveMaximumExceeded,
        0x94 => TopicAliasInvalid,
        0x95 => PacketTooLarge,
        0x96 => MessageRateTooHigh,
        0x97 => QuotaExceeded,
        0x98 => AdministrativeAction,
        0x99 => PayloadFormatInvalid,
        0x9A => RetainNotSupported,
        0x9B => QoSNotSupported,
        0x9C => UserAnotherServer,
        0x9D => ServerMoved,
        0x9E => SharedSubscriptionNotSupported,
        0x9F => ConnectionRateExceeded,
        0xA0 => MaximumConnectTime,
        0xA1 => SubscriptionIdentifiersNotSupported,
        0xA2 => WildcardSubscriptionsNotSupported,
        _ => return None,
    })
}

pub fn v5_auth_reason(n: u8) -> Option<v5::AuthReasonCode> {
    use v5::AuthReasonCode::*;
    Some(match n {
        0x00 => Success,
        0x18 => ContinueAuthentication,
        0x19 => ReAuthentication,
        _ => return None,
    })
}

pub fn v5_puback_reason(n: u8) -> Option<v5::PubackReasonCode> {
    use v5::PubackReasonCode::*;
    Some(match n {
        0x00 => Success,
        0x10 => NoMatchingSubscribers,
        0x80 => UnspecifiedError,
        0x83 => ImplementationSpecificError,
        0x87 => NotAuthorized,
        0x90 => TopicNameInvalid,
        0x91 => PacketIdentifierInUse,
        0x97 => QuotaExceeded,
        0x99 => PayloadFormatInvalid,
        _ => return None,
    })
}

pub fn v5_pubrec_reason(n: u8) -> Option<v5::PubrecReasonCode> {
    use v5::PubrecReasonCode::*;
    Some(match n {
        0x00 => Success,
        0x10 => NoMatchingSubscribers,
        0x80 => UnspecifiedError,
        0x83 => ImplementationSpecificError,
        0x87 => NotAuthorized,
        0x90 => TopicNameInvalid,
        0x91 => PacketIdentifierInUse,
        0x97 => QuotaExceeded,
        0x99 => PayloadFormatInvalid,
        _ => return None,
    })
}

pub fn v5_pubrel_reason(n: u8) -> Option<v5::PubrelReasonCode> {
    use v5::PubrelReasonCode::*;
    Some(match n {
        0x00 => Success,
        0x92 => PacketIdentifierNotFound,
        _ => return None,
    })
}

pub fn v5_pubcomp_reason(n: u8) -> Option<v5::PubcompReasonCode> {
    use v5::PubcompReasonCode::*;
    Some(match n {
        0x00 => Success,
        0x92 => PacketIdentifierNotFound,
        _ => return None,
    })
}

pub fn v5_subscribe_reason(n: u8) -> Option<v5::SubscribeReasonCode> {
    use v5::SubscribeReasonCode::*;
    Some(match n {
        0x00 => GrantedQoS0,
        0x01 => GrantedQoS1,
        0x02 => GrantedQoS2,
        0x80 => UnspecifiedError,
        0x83 => ImplementationSpecificError,
        0x87 => NotAuthorized,
        0x8F => TopicFilterInvalid,
        0x91 => PacketIdentifierInUse,
        0x97 => QuotaExceeded,
        0x9E => SharedSubscriptionNotSupported,
        0xA1 => SubscriptionIdentifiersNotSupported,
        0xA2 => WildcardSubscriptionsNotSupported,
        _ => return None,
    })
}

pub fn v5_unsubscribe_reason(n: u8) -> Option<v5::UnsubscribeReasonCode> {
    use v5::UnsubscribeReasonCode::*;
    Some(match n {
        0x00 => Success,
        0x11 => NoSubscriptionExisted,
        0x80 => UnspecifiedError,
        0x83 => ImplementationSpecificError,
        0x87 => NotAuthorized,
        0x8F => TopicFilterInvalid,
        0x91 => PacketIdentifierInUse,
        _ => return None,
    })
}

pub fn v5_property_id(n: u8) -> Option<v5::PropertyId> {
    use v5::PropertyId::*;
    Some(match n {
        0x01 => PayloadFormatIndicator,
        0x02 => MessageExpiryInterval,
        0x03 => ContentType,
        0x08 => ResponseTopic,
        0x09 => CorrelationData,
        0x0B => SubscriptionIdentifier,
        0x11 => SessionExpiryInterval,
        0x12 => AssignedClientIdentifier,
        0x13 => ServerKeepAlive,
        0x15 => AuthenticationMethod,
        0x16 => AuthenticationData,
        0x17 => RequestProblemInformation,
        0x18 => WillDelayInterval,
        0x19 => RequestResponseInformation,
        0x1A => ResponseInformation,
        0x1C => ServerReference,
        0x1F => ReasonString,
        0x21 => ReceiveMaximum,
        0x22 => TopicAliasMaximum,
        0x23 => TopicAlias,
        0x24 => MaximumQoS,
        0x25 => RetainAvailable,
        0x26 => UserProperty,
        0x27 => MaximumPacketSize,
        0x28 => WildcardSubscriptionAvailable,
        0x29 => SubscriptionIdentifierAvailable,
        0x2A => SharedSubscriptionAvailable,
        _ => return None,
    })
}

pub fn v5_packet_type(t: u8) -> Option<v5::PacketType> {
    use v5::PacketType::*;
    Some(match t {
        1 => Connect,
        2 => Connack,
        3 => Publish,
        4 => Puback,
        5 => Pubrec,
        6 => Pubrel,
        7 => Pubcomp,
        8 => Subscribe,
        9 => Suback,
        10 => Unsubscribe,
        11 => Unsuback,
        12 => Pingreq,
        13 => Pingresp,
        14 => Disconnect,
        15 => Auth,
        _ => return None,
    })
}

pub fn v5_retain_handling(n: u8) -> Option<v5::RetainHandling> {
    use v5::RetainHandling::*;
    Some(match n {
        0 => SendAtSubscribe,
        1 => SendAtSubscribeIfNotExist,
        2 => DoNotSend,
        _ => return None,
    })
}

pub fn v5_sub_options(o: u8) -> Option<v5::SubscriptionOptions> {
    if o & 0xC0 != 0 {
        return None;
    }
    Some(v5::SubscriptionOptions {
        max_qos: qos(o & 3)?,
        no_local: o & 0x04 != 0,
        retain_as_published: o & 0x08 != 0,
        retain_handling: v5_retain_handling((o >> 4) & 3)?,
    })
}

/// Generic property-set filler: every id at most once (except user properties); `None` if the
/// list contains a property the target struct has no field for.
struct PropReader<'a> {
    props: &'a Props,
    used: Vec<bool>,
}

impl<'a> PropReader<'a> {
    fn new(props: &'a Props) -> Option<Self> {
        // duplicates of non-user properties cannot be represented
        for (i, p) in props.iter().enumerate() {
            if p.id != 0x26 && props[..i].iter().any(|q| q.id == p.id) {
                return None;
            }
        }
        Some(PropReader { props, used: vec![false; props.len()] })
    }
    fn find(&mut self, id: u8) -> Option<&'a PVal> {
        for (i, p) in self.props.iter().enumerate() {
            if p.id == id {
                self.used[i] = true;
                return Some(&p.val);
            }
        }
        None
    }
    fn bool(&mut self, id: u8) -> Option<Option<bool>> {
        match self.find(id) {
            None => Some(None),
            Some(PVal::Byte(0)) => Some(Some(false)),
            Some(PVal::Byte(1)) => Some(Some(true)),
            _ => None,
        }
    }
    fn u16(&mut self, id: u8) -> Option<Option<u16>> {
        match self.find(id) {
            None => Some(None),
            Some(PVal::U16(v)) => Some(Some(*v)),
            _ => None,
        }
    }
    fn u32(&mut self, id: u8) -> Option<Option<u32>> {
        match self.find(id) {
            None => Some(None),
            Some(PVal::U32(v)) => Some(Some(*v)),
            _ => None,
        }
    }
    fn string(&mut self, id: u8) -> Option<Option<Arc<String>>> {
        match self.find(id) {
            None => Some(None),
            Some(PVal::Str(v)) => Some(Some(arc(v))),
            _ => None,
        }
    }
    fn topic(&mut self, id: u8) -> Option<Option<TopicName>> {
        match self.find(id) {
            None => Some(None),
            Some(PVal::Str(v)) => Some(Some(TopicName::try_from(v.clone()).ok()?)),
            _ => None,
        }
    }
    fn bin(&mut self, id: u8) -> Option<Option<Bytes>> {
        match self.find(id) {
            None => Some(None),
            Some(PVal::Bin(v)) => Some(Some(Bytes::from(v.clone()))),
            _ => None,
        }
    }
    fn varint(&mut self, id: u8) -> Option<Option<v5::VarByteInt>> {
        match self.find(id) {
            None => Some(None),
            Some(PVal::VarInt(v)) => Some(Some(v5::VarByteInt::try_from(*v).ok()?)),
            _ => None,
        }
    }
    fn max_qos(&mut self, id: u8) -> Option<Option<QoS>> {
        match self.find(id) {
            None => Some(None),
            Some(PVal::Byte(0)) => Some(Some(QoS::Level0)),
            Some(PVal::Byte(1)) => Some(Some(QoS::Level1)),
            _ => None,
        }
    }
    fn user(&mut self) -> Option<Vec<v5::UserProperty>> {
        let mut out = Vec::new();
        for (i, p) in self.props.iter().enumerate() {
            if p.id == 0x26 {
                self.used[i] = true;
                match &p.val {
                    PVal::Pair(k, v) => out.push(v5::UserProperty { name: arc(k), value: arc(v) }),
                    _ => return None,
                }
            }
        }
        Some(out)
    }
    fn done(self) -> Option<()> {
        if self.used.iter().all(|u| *u) {
            Some(())
        } else {
            None
        }
    }
}

pub fn v5_connect_props(p: &Props) -> Option<v5::ConnectProperties> {
    let mut r = PropReader::new(p)?;
    let out = v5::ConnectProperties {
        session_expiry_interval: r.u32(0x11)?,
        receive_max: r.u16(0x21)?,
        max_packet_size: r.u32(0x27)?,
        topic_alias_max: r.u16(0x22)?,
        request_response_info: r.bool(0x19)?,
        request_problem_info: r.bool(0x17)?,
        user_properties: r.user()?,
        auth_method: r.string(0x15)?,
        auth_data: r.bin(0x16)?,
    };
    r.done()?;
    Some(out)
}

pub fn v5_will_props(p: &Props) -> Option<v5::WillProperties> {
    let mut r = PropReader::new(p)?;
    let out = v5::WillProperties {
        delay_interval: r.u32(0x18)?,
        payload_is_utf8: r.bool(0x01)?,
        message_expiry_interval: r.u32(0x02)?,
        content_type: r.string(0x03)?,
        response_topic: r.topic(0x08)?,
        correlation_data: r.bin(0x09)?,
        user_properties: r.user()?,
    };
    r.done()?;
    Some(out)
}

pub fn v5_connack_props(p: &Props) -> Option<v5::ConnackProperties> {
    let mut r = PropReader::new(p)?;
    let out = v5::ConnackProperties {
        session_expiry_interval: r.u32(0x11)?,
        receive_max: r.u16(0x21)?,
        max_qos: r.max_qos(0x24)?,
        retain_available: r.bool(0x25)?,
        max_packet_size: r.u32(0x27)?,
        assigned_client_id: r.string(0x12)?,
        topic_alias_max: r.u16(0x22)?,
        reason_string: r.string(0x1F)?,
        user_properties: r.user()?,
        wildcard_subscription_available: r.bool(0x28)?,
        subscription_id_available: r.bool(0x29)?,
        shared_subscription_available: r.bool(0x2A)?,
        server_keep_alive: r.u16(0x13)?,
        response_info: r.string(0x1A)?,
        server_reference: r.string(0x1C)?,
        auth_method: r.string(0x15)?,
        auth_data: r.bin(0x16)?,
    };
    r.done()?;
    Some(out)
}

pub fn v5_publish_props(p: &Props) -> Option<v5::PublishProperties> {
    let mut r = PropReader::new(p)?;
    let out = v5::PublishProperties {
        payload_is_utf8: r.bool(0x01)?,
        message_expiry_interval: r.u32(0x02)?,
        topic_alias: r.u16(0x23)?,
        response_topic: r.topic(0x08)?,
        correlation_data: r.bin(0x09)?,
        user_properties: r.user()?,
        subscription_id: r.varint(0x0B)?,
        content_type: r.string(0x03)?,
    };
    r.done()?;
    Some(out)
}

macro_rules! reason_only_props {
    ($name:ident, $ty:ty) => {
        pub fn $name(p: &Props) -> Option<$ty> {
            let mut r = PropReader::new(p)?;
            let out = <$ty>::default();
            let out = {
                let mut o = out;
                o.reason_string = r.string(0x1F)?;
                o.user_properties = r.user()?;
                o
            };
            r.done()?;
            Some(out)
        }
    };
}
reason_only_props!(v5_puback_props, v5::PubackProperties);
reason_only_props!(v5_pubrec_props, v5::PubrecProperties);
reason_only_props!(v5_pubrel_props, v5::PubrelProperties);
reason_only_props!(v5_pubcomp_props, v5::PubcompProperties);
reason_only_props!(v5_suback_props, v5::SubackProperties);
reason_only_props!(v5_unsuback_props, v5::UnsubackProperties);

pub fn v5_subscribe_props(p: &Props) -> Option<v5::SubscribeProperties> {
    let mut r = PropReader::new(p)?;
    let out = v5::SubscribeProperties { subscription_id: r.varint(0x0B)?, user_properties: r.user()? };
    r.done()?;
    Some(out)
}

pub fn v5_unsubscribe_props(p: &Props) -> Option<v5::UnsubscribeProperties> {
    let mut r = PropReader::new(p)?;
    let out = v5::UnsubscribeProperties { user_properties: r.user()? };
    r.done()?;
    Some(out)
}

pub fn v5_disconnect_props(p: &Props) -> Option<v5::DisconnectProperties> {
    let mut r = PropReader::new(p)?;
    let out = v5::DisconnectProperties {
        session_expiry_interval: r.u32(0x11)?,
        reason_string: r.string(0x1F)?,
        user_properties: r.user()?,
        server_reference: r.string(0x1C)?,
    };
    r.done()?;
    Some(out)
}

pub fn v5_auth_props(p: &Props) -> Option<v5::AuthProperties> {
    let mut r = PropReader::new(p)?;
    let out = v5::AuthProperties {
        auth_method: r.string(0x15)?,
        auth_data: r.bin(0x16)?,
        reason_string: r.string(0x1F)?,
        user_properties: r.user()?,
    };
    r.done()?;
    Some(out)
}

pub fn v5_from_ast(a: &Ast) -> Option<v5::Packet> {
    use v5::Packet as P;
    Some(match a {
        Ast::Connect { level, clean, keep_alive, props, client_id, will, username, password } => {
            if *level != 5 {
                return None;
            }
            let last_will = match will {
                None => None,
                Some(Will { qos: q, retain, props, topic, payload }) => Some(v5::LastWill {
                    qos: qos(*q)?,
                    retain: *retain,
                    topic_name: TopicName::try_from(topic.clone()).ok()?,
                    payload: Bytes::from(payload.clone()),
                    properties: v5_will_props(props)?,
                }),
            };
            P::Connect(v5::Connect {
                protocol: Protocol::V500,
                clean_start: *clean,
                keep_alive: *keep_alive,
                properties: v5_connect_props(props)?,
                client_id: arc(client_id),
                last_will,
                username: username.as_deref().map(arc),
                password: password.clone().map(Bytes::from),
            })
        }
        Ast::Connack { session_present, code, props } => P::Connack(v5::Connack {
            session_present: *session_present,
            reason_code: v5_connect_reason(*code)?,
            properties: v5_connack_props(props)?,
        }),
        Ast::Publish { dup, qos: q, retain, topic, pid, props, payload } => P::Publish(v5::Publish {
            dup: *dup,
            retain: *retain,
            qos_pid: qos_pid(*q, *pid)?,
            topic_name: TopicName::try_from(topic.clone()).ok()?,
            payload: Bytes::from(payload.clone()),
            properties: v5_publish_props(props)?,
        }),
        Ast::Ack { typ, pid, code, props } => {
            let pid = Pid::try_from(*pid).ok()?;
            match *typ {
                ptype::PUBACK => {
                    P::Puback(v5::Puback { pid, reason_code: v5_puback_reason(*code)?, properties: v5_puback_props(props)? })
                }
                ptype::PUBREC => {
                    P::Pubrec(v5::Pubrec { pid, reason_code: v5_pubrec_reason(*code)?, properties: v5_pubrec_props(props)? })
                }
                ptype::PUBREL => {
                    P::Pubrel(v5::Pubrel { pid, reason_code: v5_pubrel_reason(*code)?, properties: v5_pubrel_props(props)? })
                }
                ptype::PUBCOMP => {
                    P::Pubcomp(v5::Pubcomp { pid, reason_code: v5_pubcomp_reason(*code)?, properties: v5_pubcomp_props(props)? })
                }
                _ => return None,
            }
        }
        Ast::Subscribe { pid, props, topics } => {
            let mut t = Vec::new();
            for (f, o) in topics {
                t.push((TopicFilter::try_from(f.clone()).ok()?, v5_sub_options(*o)?));
            }
            P::Subscribe(v5::Subscribe { pid: Pid::try_from(*pid).ok()?, properties: v5_subscribe_props(props)?, topics: t })
        }
        Ast::Suback { pid, props, codes } => {
            let mut t = Vec::new();
            for c in codes {
                t.push(v5_subscribe_reason(*c)?);
            }
            P::Suback(v5::Suback { pid: Pid::try_from(*pid).ok()?, properties: v5_suback_props(props)?, topics: t })
        }
        Ast::Unsubscribe { pid, props, topics } => {
            let mut t = Vec::new();
            for f in topics {
                t.push(TopicFilter::try_from(f.clone()).ok()?);
            }
            P::Unsubscribe(v5::Unsubscribe { pid: Pid::try_from(*pid).ok()?, properties: v5_unsubscribe_props(props)?, topics: t })
        }
        Ast::Unsuback { pid, props, codes } => {
            let mut t = Vec::new();
            for c in codes {
                t.push(v5_unsubscribe_reason(*c)?);
            }
            P::Unsuback(v5::Unsuback { pid: Pid::try_from(*pid).ok()?, properties: v5_unsuback_props(props)?, topics: t })
        }
        Ast::Pingreq => P::Pingreq,
        Ast::Pingresp => P::Pingresp,
        Ast::Disconnect { code, props } => {
            P::Disconnect(v5::Disconnect { reason_code: v5_disconnect_reason(*code)?, properties: v5_disconnect_props(props)? })
        }
        Ast::Auth { code, props } => P::Auth(v5::Auth { reason_code: v5_auth_reason(*code)?, properties: v5_auth_props(props)? }),
    })
}
